#!/usr/bin/env bash
# Runs every registered quick check once (optionally with VERIF_SEED) and validates evidence files. Not a registered check.
cd "$(dirname "$0")"
fail=0
for id in $(python3 -c "import json; print(' '.join(c['property_id'] for c in json.load(open('MANIFEST.json'))['checks']))"); do
  rm -f evidence/$id.json
  s=$(date +%s)
  out=$(./check $id ${1:-quick} 2>&1); rc=$?
  e=$(date +%s)
  line=$(echo "$out" | grep -E "^$id (quick|thorough) seed" | tail -1)
  echo "rc=$rc $((e-s))s $line"
  if [ $rc -ne 0 ]; then fail=1; echo "$out" | grep -E "VIOLATION|signature|detail|INCONCLUSIVE|BUILD" | head -5; fi
done
python3-vt - <<'PY'
import json, jsonschema, glob
sch=json.load(open('/root/.vp/EVIDENCE.schema.json'))
for c in json.load(open('/verif/MANIFEST.json'))['checks']:
    try:
        jsonschema.validate(json.load(open(c['evidence_file'])), sch)
    except Exception as ex:
        print('EVIDENCE INVALID', c['property_id'], str(ex)[:200])
print('evidence validated')
PY
exit $fail
