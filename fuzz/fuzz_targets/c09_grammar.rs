#![no_main]
//! Coverage-guided differential target for C09: byte 0 selects the grammar, the rest is the candidate string.
//! The oracle (hand-written recogniser vs. the three run-time acceptance paths + render/round-trip identities) is
//! the same function the property-based check uses; a disagreement aborts, the artifact becomes the replay input.
use libfuzzer_sys::fuzz_target;
use vharness::props::c09::{Kind, check_string};

const KINDS: [Kind; 6] = [Kind::LayerName, Kind::ProcessType, Kind::BuildpackId, Kind::ExecDKey, Kind::Version, Kind::Api];

fuzz_target!(|data: &[u8]| {
    if data.is_empty() {
        return;
    }
    let kind = KINDS[(data[0] as usize) % KINDS.len()];
    let Ok(s) = std::str::from_utf8(&data[1..]) else { return };
    if let Err(f) = check_string(kind, s) {
        eprintln!("C09-FUZZ-FAIL sig={} kind={:?} s={:?} msg={}", f.sig, kind, s, f.msg);
        std::process::abort();
    }
});
