#!/usr/bin/env bash
# seed_recheck.sh [pattern]: regression over the stored seeded changes. For every /verif/seeded/<name>/ (optionally
# filtered by a glob pattern) the patch is applied to /repo, every check that reported it when it was evaluated is run
# again (quick tier) and must still report it; /repo is reverted after each. Prints one line per seed and a summary.
# Not a registered check. Do not run while other checks are running (it patches /repo).
cd "$(dirname "$0")"
pat=${1:-*}
ok=0; lost=0
git -C /repo status --short | grep -v '^??' | grep -q . && { echo "/repo not clean"; exit 2; }
for d in seeded/$pat/; do
  [ -f $d/patch.diff ] || continue
  name=$(basename $d)
  checks=$(python3 -c "import json;print(' '.join(c['check'] for c in json.load(open('$d/meta.json')).get('checks',[]) if c['exit']=='1'))")
  git -C /repo apply $PWD/$d/patch.diff || { echo "$name: PATCH DOES NOT APPLY"; lost=$((lost+1)); continue; }
  res=""
  for c in $checks; do
    out=$(./check $c quick 2>&1); rc=$?
    sig=$(echo "$out" | grep -m1 "signature:" | sed 's/.*signature: //')
    res="$res $c:rc=$rc:$sig"
    [ $rc -eq 1 ] && ok=$((ok+1)) || lost=$((lost+1))
    # replay files written for a seeded change document the seed, not the real tree
    find replays/$c -maxdepth 1 -name '*.json' -newer $d/patch.diff -mmin -5 -delete 2>/dev/null
    find replays/$c -maxdepth 1 -name 'crash-*.log' -mmin -5 -delete 2>/dev/null
  done
  git -C /repo checkout -- .
  echo "$name:$res"
done
echo "SUMMARY reported_again=$ok no_longer_reported=$lost"
[ $lost -eq 0 ]
