#!/usr/bin/env bash
# benign_eval.sh <worktree> <x> <name> <checks...>: false-alarm test. Applies a behaviour-preserving change
# (<worktree>/SEED/<x>/patch.diff, or the stored benign/<name>/patch.diff when <worktree> is "-") to /repo, runs the
# given quick checks — every one must exit 0 — and reverts /repo. Results go to /verif/benign/<name>/.
# Not a registered check. Do not run while other checks are running (it patches /repo).
set -u
WT=$1; X=$2; NAME=$3; shift 3
cd "$(dirname "$0")"
OUT=benign/$NAME
mkdir -p $OUT
if [ "$WT" != "-" ]; then cp $WT/SEED/$X/patch.diff $OUT/patch.diff; cp $WT/SEED/$X/meta.json $OUT/agent_meta.json 2>/dev/null; fi
git -C /repo status --short | grep -v '^??' | grep -q . && { echo "/repo not clean"; exit 2; }
git -C /repo apply $PWD/$OUT/patch.diff || { echo "$NAME: PATCH DOES NOT APPLY"; exit 2; }
res=""; alarms=0
for c in "$@"; do
  out=$(./check $c quick 2>&1); rc=$?
  sig=$(echo "$out" | grep -m1 "signature:" | sed 's/.*signature: //')
  res="$res $c:rc=$rc:$sig"
  if [ $rc -ne 0 ]; then alarms=$((alarms+1)); echo "$out" | grep -E "VIOLATION|signature|detail|INCONCLUSIVE" | head -6 > $OUT/alarm_$c.log; mkdir -p $OUT/replays; find replays/$c -maxdepth 1 \( -name '*.json' -o -name 'crash-*.log' \) -mmin -5 -exec mv {} $OUT/replays/ \; 2>/dev/null; fi
done
git -C /repo checkout -- .
python3 - "$OUT" "$res" <<'PY'
import json,sys,os
out,res=sys.argv[1:3]
try: m=json.load(open(out+'/agent_meta.json'))
except Exception: m={}
m['checks']=[dict(zip(['check','exit','signature'],[r.split(':')[0],r.split(':')[1].replace('rc=',''),':'.join(r.split(':')[2:])])) for r in res.split()]
json.dump(m,open(out+'/meta.json','w'),indent=1)
PY
echo "$NAME:$res  alarms=$alarms"
