#!/usr/bin/env python3
"""Independent TOML 1.0 reader (Python tomllib) as a line-oriented server.
stdin:  one JSON object per line: {"toml": "<text>"}
stdout: one JSON object per line: {"ok": true, "v": <tagged value>} | {"ok": false, "err": "..."}
Tagged values keep the TOML kind: {"s": str} {"i": "int"} {"f": "repr"} {"b": bool} {"d": "iso"} {"a": [...]} {"t": [[k, v], ...]}
"""
import sys, json, tomllib, datetime, math

def tag(v):
    if isinstance(v, bool):
        return {"b": v}
    if isinstance(v, int):
        return {"i": str(v)}
    if isinstance(v, float):
        if math.isnan(v):
            return {"f": "nan"}
        if math.isinf(v):
            return {"f": "inf" if v > 0 else "-inf"}
        return {"f": repr(v)}
    if isinstance(v, str):
        return {"s": v}
    if isinstance(v, (datetime.datetime, datetime.date, datetime.time)):
        return {"d": v.isoformat()}
    if isinstance(v, list):
        return {"a": [tag(x) for x in v]}
    if isinstance(v, dict):
        return {"t": [[k, tag(x)] for k, x in v.items()]}
    raise TypeError(type(v))

def main():
    out = sys.stdout
    for line in sys.stdin:
        line = line.strip()
        if not line:
            continue
        try:
            req = json.loads(line)
            doc = tomllib.loads(req["toml"])
            res = {"ok": True, "v": tag(doc)}
        except Exception as e:  # parse errors are data, not crashes
            res = {"ok": False, "err": f"{type(e).__name__}: {e}"}
        out.write(json.dumps(res, ensure_ascii=True))
        out.write("\n")
        out.flush()

if __name__ == "__main__":
    main()
