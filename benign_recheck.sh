#!/usr/bin/env bash
# benign_recheck.sh [pattern]: re-applies every stored behaviour-preserving change (benign/<name>/patch.diff) and runs the
# checks recorded for it; every check must exit 0. Not a registered check; patches /repo (reverted after each).
cd "$(dirname "$0")"
alarms=0
for d in benign/${1:-*}/; do
  [ -f $d/patch.diff ] || continue
  n=$(basename $d)
  checks=$(python3 -c "import json;print(' '.join(c['check'] for c in json.load(open('$d/meta.json')).get('checks',[])))")
  line=$(./benign_eval.sh - x $n $checks | tail -1); echo "$line"
  case "$line" in *"alarms=0") ;; *) alarms=$((alarms+1));; esac
done
echo "SUMMARY changes_with_alarms=$alarms"
[ $alarms -eq 0 ]
