// LD_PRELOAD shim for C12: the K-th matching libc file-system call under a path prefix fails with a chosen errno.
//   FAULTFS_PREFIXES  ':'-separated absolute path prefixes (a call matches if its path starts with one of them,
//                     or its fd was opened under one of them)
//   FAULTFS_K         1-based index of the matching call to fail (0 / unset = record only)
//   FAULTFS_ERRNO     errno to deliver (default EIO)
//   FAULTFS_LOG       file that receives one line per matching call: "<n> <call> <path-or-fd>" and "FAULT <n> ..."
// stat-family calls are never failed or counted. Not thread-safe beyond an atomic counter (workers are single-threaded
// while they touch the scenario directory).
#define _GNU_SOURCE
#include <dlfcn.h>
#include <errno.h>
#include <fcntl.h>
#include <stdarg.h>
#include <stdio.h>
#include <stdlib.h>
#include <string.h>
#include <sys/stat.h>
#include <sys/types.h>
#include <sys/uio.h>
#include <dirent.h>
#include <unistd.h>
#include <sys/syscall.h>

#define MAXFD 4096
static char tracked[MAXFD];
static char tracked_path[MAXFD][256];
static long counter = 0;
static long target_k = -1;
static int fault_errno = EIO;
static int log_fd = -1;
static char prefixes[8][512];
static int nprefixes = -1;
static __thread int in_hook = 0;

static void init(void) {
    if (nprefixes >= 0) return;
    nprefixes = 0;
    const char *p = getenv("FAULTFS_PREFIXES");
    if (p) {
        char buf[4096];
        strncpy(buf, p, sizeof buf - 1);
        buf[sizeof buf - 1] = 0;
        char *save = NULL;
        for (char *t = strtok_r(buf, ":", &save); t && nprefixes < 8; t = strtok_r(NULL, ":", &save)) {
            strncpy(prefixes[nprefixes], t, 511);
            nprefixes++;
        }
    }
    const char *k = getenv("FAULTFS_K");
    target_k = k ? atol(k) : 0;
    const char *e = getenv("FAULTFS_ERRNO");
    if (e) fault_errno = atoi(e);
    const char *l = getenv("FAULTFS_LOG");
    if (l) log_fd = (int)syscall(SYS_openat, AT_FDCWD, l, O_WRONLY | O_CREAT | O_APPEND | O_CLOEXEC, 0644);
}

static int path_matches(const char *path) {
    init();
    if (!path) return 0;
    for (int i = 0; i < nprefixes; i++) {
        size_t n = strlen(prefixes[i]);
        if (strncmp(path, prefixes[i], n) == 0 && (path[n] == 0 || path[n] == '/')) return 1;
    }
    return 0;
}

static int at_matches(int dirfd, const char *path) {
    init();
    if (path && path[0] == '/') return path_matches(path);
    if (dirfd >= 0 && dirfd < MAXFD && tracked[dirfd]) return 1;
    if (dirfd == AT_FDCWD && path) {
        char cwd[1024];
        if (syscall(SYS_getcwd, cwd, sizeof cwd) > 0) {
            char full[2048];
            snprintf(full, sizeof full, "%s/%s", cwd, path);
            return path_matches(full);
        }
    }
    return 0;
}

static void logline(const char *kind, long n, const char *call, const char *what) {
    if (log_fd < 0) return;
    char buf[1024];
    int len = snprintf(buf, sizeof buf, "%s%ld %s %s\n", kind, n, call, what ? what : "");
    if (len > 0) syscall(SYS_write, log_fd, buf, (size_t)len);
}

// returns 1 if this call must fail
static int hit(const char *call, const char *what) {
    long n = __sync_add_and_fetch(&counter, 1);
    logline("", n, call, what);
    if (target_k > 0 && n == target_k) {
        logline("FAULT ", n, call, what);
        return 1;
    }
    return 0;
}

static const char *fdname(int fd) {
    static __thread char b[300];
    snprintf(b, sizeof b, "fd:%s", (fd >= 0 && fd < MAXFD) ? tracked_path[fd] : "?");
    return b;
}

static void track(int fd, const char *path) {
    if (fd >= 0 && fd < MAXFD) {
        tracked[fd] = 1;
        strncpy(tracked_path[fd], path ? path : "", 255);
        tracked_path[fd][255] = 0;
    }
}

#define REAL(name) static __typeof__(name) *real = NULL; if (!real) real = dlsym(RTLD_NEXT, #name)

// opens that create or write are logged as "openw": only those (not read-only opens, where ENOENT means "absent")
// are candidates for an injected ENOENT
#define WRITE_FLAGS (O_CREAT | O_WRONLY | O_RDWR | O_TRUNC | O_APPEND)
static int open_common(const char *call, int (*fn)(const char *, int, ...), const char *path, int flags, mode_t mode) {
    if (flags & WRITE_FLAGS) call = "openw";
    if (!in_hook && path_matches(path)) {
        in_hook = 1;
        int fail = hit(call, path);
        in_hook = 0;
        if (fail) { errno = fault_errno; return -1; }
        int fd = fn(path, flags, mode);
        if (fd >= 0) track(fd, path);
        return fd;
    }
    return fn(path, flags, mode);
}

int open(const char *path, int flags, ...) {
    REAL(open);
    mode_t mode = 0;
    if (flags & (O_CREAT | O_TMPFILE)) { va_list ap; va_start(ap, flags); mode = va_arg(ap, mode_t); va_end(ap); }
    return open_common("open", real, path, flags, mode);
}
int open64(const char *path, int flags, ...) {
    REAL(open64);
    mode_t mode = 0;
    if (flags & (O_CREAT | O_TMPFILE)) { va_list ap; va_start(ap, flags); mode = va_arg(ap, mode_t); va_end(ap); }
    return open_common("open", real, path, flags, mode);
}
static int openat_common(const char *call, int (*fn)(int, const char *, int, ...), int dirfd, const char *path, int flags, mode_t mode) {
    if (flags & WRITE_FLAGS) call = "openw";
    if (!in_hook && at_matches(dirfd, path)) {
        in_hook = 1;
        int fail = hit(call, path);
        in_hook = 0;
        if (fail) { errno = fault_errno; return -1; }
        int fd = fn(dirfd, path, flags, mode);
        if (fd >= 0) track(fd, path);
        return fd;
    }
    return fn(dirfd, path, flags, mode);
}
int openat(int dirfd, const char *path, int flags, ...) {
    REAL(openat);
    mode_t mode = 0;
    if (flags & (O_CREAT | O_TMPFILE)) { va_list ap; va_start(ap, flags); mode = va_arg(ap, mode_t); va_end(ap); }
    return openat_common("openat", real, dirfd, path, flags, mode);
}
int openat64(int dirfd, const char *path, int flags, ...) {
    REAL(openat64);
    mode_t mode = 0;
    if (flags & (O_CREAT | O_TMPFILE)) { va_list ap; va_start(ap, flags); mode = va_arg(ap, mode_t); va_end(ap); }
    return openat_common("openat", real, dirfd, path, flags, mode);
}
int creat(const char *path, mode_t mode) {
    REAL(creat);
    if (!in_hook && path_matches(path)) {
        if (hit("creat", path)) { errno = fault_errno; return -1; }
        int fd = real(path, mode);
        if (fd >= 0) track(fd, path);
        return fd;
    }
    return real(path, mode);
}
int close(int fd) {
    REAL(close);
    if (fd >= 0 && fd < MAXFD) tracked[fd] = 0;
    return real(fd);
}

#define PATH_HOOK1(name, callname) \
    int name(const char *path) { REAL(name); if (!in_hook && path_matches(path) && hit(callname, path)) { errno = fault_errno; return -1; } return real(path); }
PATH_HOOK1(unlink, "unlink")
PATH_HOOK1(rmdir, "rmdir")

int mkdir(const char *path, mode_t mode) { REAL(mkdir); if (!in_hook && path_matches(path) && hit("mkdir", path)) { errno = fault_errno; return -1; } return real(path, mode); }
int mkdirat(int dirfd, const char *path, mode_t mode) { REAL(mkdirat); if (!in_hook && at_matches(dirfd, path) && hit("mkdir", path)) { errno = fault_errno; return -1; } return real(dirfd, path, mode); }
int unlinkat(int dirfd, const char *path, int flags) { REAL(unlinkat); if (!in_hook && at_matches(dirfd, path) && hit((flags & AT_REMOVEDIR) ? "rmdir" : "unlink", path)) { errno = fault_errno; return -1; } return real(dirfd, path, flags); }
int rename(const char *a, const char *b) { REAL(rename); if (!in_hook && (path_matches(a) || path_matches(b)) && hit("rename", a)) { errno = fault_errno; return -1; } return real(a, b); }
int renameat(int ad, const char *a, int bd, const char *b) { REAL(renameat); if (!in_hook && (at_matches(ad, a) || at_matches(bd, b)) && hit("rename", a)) { errno = fault_errno; return -1; } return real(ad, a, bd, b); }
int chmod(const char *path, mode_t mode) { REAL(chmod); if (!in_hook && path_matches(path) && hit("chmod", path)) { errno = fault_errno; return -1; } return real(path, mode); }
int fchmod(int fd, mode_t mode) { REAL(fchmod); if (!in_hook && fd >= 0 && fd < MAXFD && tracked[fd] && hit("chmod", fdname(fd))) { errno = fault_errno; return -1; } return real(fd, mode); }
int fchmodat(int dirfd, const char *path, mode_t mode, int flags) { REAL(fchmodat); if (!in_hook && at_matches(dirfd, path) && hit("chmod", path)) { errno = fault_errno; return -1; } return real(dirfd, path, mode, flags); }
int symlink(const char *target, const char *linkpath) { REAL(symlink); if (!in_hook && path_matches(linkpath) && hit("symlink", linkpath)) { errno = fault_errno; return -1; } return real(target, linkpath); }
int symlinkat(const char *target, int dirfd, const char *linkpath) { REAL(symlinkat); if (!in_hook && at_matches(dirfd, linkpath) && hit("symlink", linkpath)) { errno = fault_errno; return -1; } return real(target, dirfd, linkpath); }

ssize_t read(int fd, void *buf, size_t n) { REAL(read); if (!in_hook && fd >= 0 && fd < MAXFD && tracked[fd] && hit("read", fdname(fd))) { errno = fault_errno; return -1; } return real(fd, buf, n); }
ssize_t write(int fd, const void *buf, size_t n) { REAL(write); if (!in_hook && fd >= 0 && fd < MAXFD && tracked[fd] && hit("write", fdname(fd))) { errno = fault_errno; return -1; } return real(fd, buf, n); }
ssize_t writev(int fd, const struct iovec *iov, int cnt) { REAL(writev); if (!in_hook && fd >= 0 && fd < MAXFD && tracked[fd] && hit("write", fdname(fd))) { errno = fault_errno; return -1; } return real(fd, iov, cnt); }
ssize_t pread64(int fd, void *buf, size_t n, off64_t off) { REAL(pread64); if (!in_hook && fd >= 0 && fd < MAXFD && tracked[fd] && hit("read", fdname(fd))) { errno = fault_errno; return -1; } return real(fd, buf, n, off); }
ssize_t pwrite64(int fd, const void *buf, size_t n, off64_t off) { REAL(pwrite64); if (!in_hook && fd >= 0 && fd < MAXFD && tracked[fd] && hit("write", fdname(fd))) { errno = fault_errno; return -1; } return real(fd, buf, n, off); }
ssize_t copy_file_range(int in, off64_t *oi, int out, off64_t *oo, size_t len, unsigned int flags) {
    REAL(copy_file_range);
    if (!in_hook && ((in >= 0 && in < MAXFD && tracked[in]) || (out >= 0 && out < MAXFD && tracked[out])) && hit("write", fdname(out))) { errno = fault_errno; return -1; }
    return real(in, oi, out, oo, len, flags);
}
ssize_t sendfile64(int out, int in, off64_t *off, size_t cnt) {
    static ssize_t (*real)(int, int, off64_t *, size_t) = NULL;
    if (!real) real = dlsym(RTLD_NEXT, "sendfile64");
    if (!in_hook && ((in >= 0 && in < MAXFD && tracked[in]) || (out >= 0 && out < MAXFD && tracked[out])) && hit("write", fdname(out))) { errno = fault_errno; return -1; }
    return real(out, in, off, cnt);
}

DIR *opendir(const char *path) {
    REAL(opendir);
    if (!in_hook && path_matches(path)) {
        if (hit("opendir", path)) { errno = fault_errno; return NULL; }
        in_hook = 1;
        DIR *d = real(path);
        in_hook = 0;
        if (d) track(dirfd(d), path);
        return d;
    }
    return real(path);
}
DIR *fdopendir(int fd) {
    REAL(fdopendir);
    if (!in_hook && fd >= 0 && fd < MAXFD && tracked[fd] && hit("opendir", fdname(fd))) { errno = fault_errno; return NULL; }
    return real(fd);
}
struct dirent64 *readdir64(DIR *d) {
    REAL(readdir64);
    int fd = d ? dirfd(d) : -1;
    if (!in_hook && fd >= 0 && fd < MAXFD && tracked[fd] && hit("readdir", fdname(fd))) { errno = fault_errno; return NULL; }
    return real(d);
}
int closedir(DIR *d) {
    REAL(closedir);
    int fd = d ? dirfd(d) : -1;
    if (fd >= 0 && fd < MAXFD) tracked[fd] = 0;
    return real(d);
}
