#!/usr/bin/env bash
set -eu
cd "$(dirname "$0")"
./build.sh
echo "setup ok"
