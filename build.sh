#!/usr/bin/env bash
# Builds the harness (path-dependencies on /repo => always from /repo's current working tree) and the C shim.
set -eu
cd "$(dirname "$0")"
export CARGO_NET_OFFLINE=true
(
  flock 9
  cd harness
  [ -f Cargo.lock ] || cp /repo/Cargo.lock Cargo.lock
  cargo build --release --offline 2>&1
  cd ..
  # the real cargo-libcnb binary (C15), built from /repo's working tree into a target directory outside /repo
  cargo build --offline --manifest-path /repo/Cargo.toml -p libcnb-cargo --target-dir harness/target/repo-bins 2>&1
  if [ -f shim/faultfs.c ]; then
    if [ ! -f shim/faultfs.so ] || [ shim/faultfs.c -nt shim/faultfs.so ]; then
      gcc -O2 -shared -fPIC -o shim/faultfs.so shim/faultfs.c -ldl
    fi
  fi
) 9>harness/.build.lock
