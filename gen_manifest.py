#!/usr/bin/env python3
"""Regenerates MANIFEST.json from the table below (kept in one place so it stays valid)."""
import json, sys

CHECKS = {
 "C04": dict(cat="exploration", tech="bounded-exhaustive enumeration + proptest sampling against a reference model of the CNB env rules; permutation metamorphic relation",
   text="Every LayerEnv with <=2 entries over a class-representative alphabet is applied for all query scopes and all 16 starting envs and compared with an independent reference apply (exhaustive for that sub-space); 20k/1M sampled larger envs with byte-string names/values. Exploration: no absence claim beyond the enumerated sub-space.",
   note="Trusts the harness's reference transcription of the spec's modification rules (envmodel.rs)."),
}

PENDING_REASON = "check not built yet in this session (work in progress; see DESIGN.md section 3 for the planned generator/oracle)"
ALL = ["C%02d" % i for i in range(1, 21)]

m = {
 "version": 1,
 "setup_cmd": "./setup.sh",
 "hooks": {
   "guard": "heroku_libcnb_rs_verif",
   "enable": "no hooks are needed: all observation points are public API or process boundaries; checks build /repo's crates as plain path dependencies of /verif/harness",
   "baseline_off_cmd": "cd /repo && cargo test --workspace --no-fail-fast --offline",
   "source_commits": [],
   "add_only": True,
 },
 "engines": [
   {"name": "vh", "path": "harness/", "serves_properties": sorted(CHECKS), "kind_free_text": "Rust harness: proptest 1.11 driven from a binary (fixed seed, shrinking, JSON replay files), bounded-exhaustive enumerators, reference models, process-level workers"},
 ],
 "checks": [],
 "notes": "All checks: ./check <ID> quick|thorough; replay: ./check <ID> --replay <file>. Exit 2 = inconclusive (never a violation).",
 "not_applicable": [],
}
for pid in ALL:
    if pid in CHECKS:
        c = CHECKS[pid]
        m["checks"].append({
          "property_id": pid,
          "quick_cmd": f"./check {pid} quick",
          "thorough_cmd": f"./check {pid} thorough",
          "evidence_file": f"/verif/evidence/{pid}.json",
          "replay_cmd_template": f"./check {pid} --replay {{path}}",
          "engine": "vh",
          "level_claimed": {"category": c["cat"], "text": c["text"], "design_ref": f"DESIGN.md section 3, {pid}"},
          "level_note": c["note"],
          "technique": c["tech"],
        })
    else:
        m["not_applicable"].append({"property_id": pid, "reason": PENDING_REASON})
json.dump(m, open("MANIFEST.json", "w"), indent=1)
print("checks:", len(m["checks"]), "pending:", len(m["not_applicable"]))
