#!/usr/bin/env python3
"""Regenerates MANIFEST.json from the table below (kept in one place so it stays valid)."""
import json, sys

CHECKS = {
 "C12": dict(cat="fault_enumeration", tech="fault injection by LD_PRELOAD interposition of libc file-system calls: for proptest-generated (prepared state, operation) pairs the matching call sequence is recorded and then EVERY position x errno in {EIO, EACCES, ENOSPC} is failed in a fresh process; snapshot differential against the fault-free run",
   text="Operations of the struct layer API, the trait layer API and the real detect/build executable run under a shim that fails exactly the k-th open/read/write/mkdir/unlink/rmdir/rename/chmod/symlink/opendir/readdir under <layers>, the plan file and <platform>; whenever the call or phase reports success although the fault was delivered, the directory must be identical to the fault-free result, and a failing phase must have run the error handler exactly once.",
   note="Single faults; stat-family calls and ENOENT never injected; close/fsync not injected; calls glibc makes internally without an interposable symbol are out of reach; trusted: glibc symbol interposition."),
 "C15": dict(cat="exploration", tech="proptest-generated Cargo workspaces packaged by the real cargo-libcnb binary built from /repo; structural oracle over the output directories (byte-identity with sources and compiled targets, tomllib-decoded package.toml) and a metamorphic relation: packaging over pre-seeded (foreign / truncated / stale-revision) output == packaging into an empty directory",
   text="Workspaces of libcnb.rs buildpack crates (several binary targets), composite buildpacks with libcnb:/path/docker dependencies and non-libcnb buildpacks are generated and packaged from the root, from each buildpack directory and from an unrelated directory, dev/release, default/relative/absolute package dir; every expected output directory is checked entry by entry, stdout must list exactly the selected buildpacks, and runs over pre-seeded output directories must produce the identical snapshot as clean runs.",
   note="Host gnu triple passed explicitly (no musl target in the sandbox); packaged locations are URI-safe paths; the interrupted-run model is a truncated copy of a real earlier output."),
 "C16": dict(cat="fault_enumeration", tech="proptest-generated fault-free scenario trees; for each tree EVERY single fault is enumerated (each external command failing, a panic at each step position, an unexpected pack result at each build) and executed in a worker process against recording stand-ins for docker/pack; invariant over the recorded command history and final resource state",
   text="Scenario trees over build/rebuild/start_container/logs/port/exec/run_shell/sbom download run through the public TestRunner API against stand-in docker and pack binaries that log argv and keep a state directory with foreign resources; for each tree the fault-free run and every single-fault variant must satisfy: detached containers force-removed after last use, image and both cache volumes force-removed exactly once after last use, nothing foreign removed, nothing of the run left (unless the failed command was that removal), TMPDIR empty.",
   note="Docker and pack are modelled by a stand-in whose exit codes and --force semantics are part of the trusted base; single faults only (a closure panic plus a failing `docker rm` during unwinding aborts the process; recorded as an observation in DESIGN.md, outside the property's quantifier)."),
 "C17": dict(cat="exploration", tech="proptest-generated build/container configurations with option-look-alike strings run through the public API against recording stand-ins; recorded argv decoded by a reference parser of the pflag grammars of pack and docker and compared field by field with the configuration",
   text="Configurations whose strings start with dashes, look like options, contain '=', spaces, quotes, newlines or Unicode are executed; every recorded pack/docker command line is decoded with a reference implementation of the tools' own flag grammar (interspersed vs. stop-at-first-positional, value flags consuming the next token) and must yield exactly the configured builder, app path (or private copy with the preprocessor's edits), buildpacks in order, env pairs once, entrypoint, env, ports, mounts, image and command vector, with no flag outside the expected set.",
   note="CSV metacharacters in --mount/--buildpack values and env keys with '=' are outside the domain; the flag tables are the harness's transcription of the docker/pack CLIs (trusted base)."),
 "C20": dict(cat="exploration", tech="metamorphic relation over processes: proptest-generated scenarios (C01/C02/C05/C07 generators) each executed in 4 fresh processes under different temp roots, lstat snapshots of all outputs compared byte for byte after path normalisation",
   text="Every scenario (detect with a generated plan; one or two consecutive builds running generated layer-operation scripts through both layer APIs and returning generated launch/store/SBOM results) is run in four separate processes with independent hash seeds under temp roots of different length; the relative snapshots of <layers> after every build and the build plan must be pairwise identical.",
   note="Iteration-order leaks are detected probabilistically (miss probability <= 1/8 per scenario with >= 2 elements); hash seeds are sampled by spawning processes, not enumerated."),
 "C05": dict(cat="exploration", tech="exhaustive enumeration of all single-dimension deviations plus proptest sampling of the configuration product, each row executed as a real process (scripted buildpack through a symlinked executable name) and judged by an independent decision table over exit code, entry markers, decoded outputs and a snapshot differential",
   text="Rows over executable name x argument count x buildpack.toml variants x presence of each CNB_* variable x scripted detect/build behaviour x pre-existing outputs x input faults are run for real; the decision table says whether buildpack code may be reached, which exit codes are allowed, how often the error handler runs, which output files must be written (decoded with tomllib and compared with the scripted result) and that everything else is byte-identical.",
   note="`trace` feature off; argv/paths UTF-8; missing CNB_TARGET_DISTRO_* accepted either as not reaching buildpack code or as behaving normally; the decision table is the harness's reading of the buildpack API spec."),
 "C06": dict(cat="exploration", tech="proptest-generated platform directories, plans, stores, descriptors and target variables fed to real detect/build executions of a context-dumping buildpack; field-by-field differential between the dump and the generated inputs; separate single-fault class for unrepresentable values",
   text="The harness lays out generated inputs with its own TOML emitter, runs the real executable and compares every field of the dumped context (directories, target, platform env incl. symlinked files and odd names, plan metadata, descriptor with defaults, store) with what was supplied; cases carrying one value that cannot be represented must end in a reported error.",
   note="Paths/argv UTF-8; trusted: the dump code of the scripted buildpack and the harness's emitter."),
 "C11": dict(cat="exploration", tech="proptest-generated layer trees (modes, every symlink kind, symlinked layer path) deleted through three public routes in a fresh worker process running unprivileged (uid 65534) and as root; lstat snapshot differential of everything outside the layer",
   text="Each generated scenario (layer tree + canary tree + sibling layers incl. prefix-sharing names) is built on disk, chowned, and one deletion route is executed in a worker that has dropped to an unprivileged uid so that permission bits bind; everything outside <layers>/<name>, <name>.toml and <name>.sbom.* must be bit-identical (content, mode, link target) afterwards, and after success the layer must be a real empty directory with no old entry.",
   note="A regular file at the layer path is not generated; errors are acceptable outcomes as long as nothing outside changed, except that a failure of the deletion itself on a real directory owned by the caller is a violation. Trusted: Linux/tmpfs permission semantics."),
 "C01": dict(cat="exploration", tech="model-based testing of operation histories: bounded-exhaustive enumeration (length <= 3 over a reduced alphabet, plus all request/write/restore/request patterns) and proptest-generated longer histories, interpreted against a real BuildContext and a reference layer model compared after every step (files bytewise, TOML via Python tomllib, callback invocation log)",
   text="Sequences of cached/uncached layer requests (all IntoAction shapes, three metadata types, every callback decision incl. errors), writes through LayerRef and simulated lifecycle restores are executed on a real layers directory; after every step the reported state, the callback log, this layer's directory/TOML/SBOMs and the byte-identity of all other layers are compared with a reference model.",
   note="The lifecycle restore is the abstraction given in the property's quantifier, applied by the harness; malformed TOML / hand-edited env directories are not generated; trusted: reference model (layermodel.rs), Python tomllib."),
 "C02": dict(cat="exploration", tech="model-based testing of operation histories: proptest-generated sequences of handle_layer calls with fully scripted Layer implementations interleaved with simulated restores, compared after every call with a reference model (callback log, disk state, returned LayerData incl. env application)",
   text="The scripted Layer implementation chooses types, strategy, migration and create/update results (metadata, env for all four scopes, exec.d, SBOMs, files) or errors per call; after every call the set and order of callbacks with their arguments, the on-disk layer and the returned LayerData (applied for every scope) must equal the model; other layers must stay byte-identical.",
   note="Callbacks obey the trait's documented contract; same lifecycle abstraction and trusted base as C01."),
 "C03": dict(cat="exploration", tech="proptest-generated (old env, new env) pairs written through libcnb into a directory with canary content, file set compared with an independent renderer of the spec layout; harness-built spec-shaped directories read through libcnb and compared with a reference reader + reference apply",
   text="Write side: after writing `new` over `old`, the regular files under env/, env.build/, env.launch/ (and per-process sub-directories) must be exactly the spec rendering of `new` with raw bytes, nothing of `old` may survive and canary content must be untouched; the value must read back equal. Read side: directories laid out by the harness (suffix-less, known, unknown and non-UTF-8 suffixes, nested directories, per-process directories) must apply exactly like the reference reader says for every scope and several starting environments.",
   note="Process names exclude '.'/'..' and names ending in a behaviour suffix; NAME and NAME.override never coexist (spec-level ambiguities); file-name splitting follows libcnb's documented last-dot rule; unix only."),
 "C10": dict(cat="exploration", tech="exhaustive enumeration of all 6^4 path-kind assignments x sampled explicit entry sets against the reference apply with implicit entries; read->write fixpoint over snapshots",
   text="For every assignment of {absent, dir, file, symlink->dir, symlink->file, dangling} to bin/lib/include/pkgconfig, with generated explicit entries on the same variables laid out by the harness, the environment read by libcnb must apply like the reference (implicit prepend for build: 5 variables, launch: 2, nothing for all/process) and repeated read->write cycles must leave the env directories and everything else unchanged.",
   note="Implicit entries are applied after the explicit ones of the same scope (libcnb's documented behaviour); trusted: reference model in envmodel.rs."),
 "C07": dict(cat="exploration", tech="proptest-generated builder call sequences and payloads written through libcnb's own writers, decoded by an independent TOML 1.0 reader (Python tomllib) and compared with an independently computed model of the spec document; round trip through libcnb's readers",
   text="Programs over LaunchBuilder/ProcessBuilder/BuildPlanBuilder, LayerContentMetadata, Store, ExecDProgramOutput (real fd 3 in a helper process) and PackageDescriptor with escaping-hostile strings and nested metadata of every TOML kind are written by libcnb; tomllib must parse the text and a reader knowing only the spec's field names/defaults must recover the model; keys the spec does not define are flagged.",
   note="Trusted: Python tomllib; the harness's model of builder semantics (groups split at each `or`, last default/working_directory wins). Datetimes limited to reader-independent spellings."),
 "C08": dict(cat="exploration", tech="schema-directed generation of valid documents (harness's own schema of the spec, own emitter) plus exhaustive single-point mutation of each document (unknown key per table, delete each required key, retype each value, add order/targets/stacks) against accept/reject expectations; value comparison with spec defaults",
   text="For eight document types, generated valid documents must parse to exactly their values (defaults filled in from the spec) and every single-point mutation of each document must be rejected, with the component/composite classification rules and a negative control (unknown keys inside free-form metadata stay accepted).",
   note="The schema is the harness's transcription of the CNB spec; store.toml without [metadata] and order with an empty targets/stacks list are not judged."),
 "C13": dict(cat="exploration", tech="bounded-exhaustive enumeration of all labelled DAGs x all ordered root selections, plus proptest-generated larger DAGs, against a validity predicate (closure set, uniqueness, dependencies first); graphs materialised as buildpack directories and read through the public API",
   text="Every labelled DAG on up to 4 (quick) / 5 (thorough) nodes is written out as a directory of composite and libcnb.rs buildpacks (with decoys), read back through build_libcnb_buildpacks_dependency_graph and ordered by get_dependencies for every ordered root selection; the output is judged by a validity predicate because many orders are correct. Random DAGs up to 12 nodes, duplicate entries and dangling dependencies are sampled.",
   note="Only acyclic inputs (the property's domain); the validity predicate and the directory materialisation are the harness's own."),
 "C14": dict(cat="exploration", tech="proptest-generated package descriptors through package_composite_buildpack; output decoded by an independent TOML reader (Python tomllib) and compared position-wise with a reference lexical path normaliser / id map / verbatim copy",
   text="Generated package.toml files mixing libcnb:, relative (with ., .., redundant separators, climbing above the root), absolute and docker/http(s)/urn/file dependencies are packaged from different source locations with complete and incomplete id->path maps; the written package.toml is decoded by tomllib and every dependency compared with an independently computed expectation.",
   note="Inputs are emitted by the harness's own TOML emitter; URI spellings are canonical so that verbatim copy is meaningful; trusted: Python tomllib, the reference normaliser."),
 "C09": dict(cat="exploration", tech="bounded-exhaustive string enumeration + proptest sampling; differential of three acceptance paths (FromStr/TryFrom, TOML+JSON deserialisation, literal macros via one generated cargo check) against hand-written grammar recognisers; display/parse round trips",
   text="All strings up to a length bound over class-representative alphabets (exhaustive for that bound), all reserved-word neighbours, random long strings and version-like strings are decided by hand-written recognisers and compared with every acceptance path incl. the compile-time macros; accepted values must render identically. Exploration beyond the enumerated bound.",
   note="Recognisers are the harness's transcription of the CNB spec grammars; LayerName strings with newline, '/' or NUL are treated as undecided (paths must agree); macro verdicts are read from rustc JSON diagnostics of a generated crate."),
 "C18": dict(cat="exploration", tech="bounded-exhaustive enumeration of small inventories x queries against a validity predicate (member, matches, maximal); proptest sampling of semver inventories with TOML round trip; exhaustive checksum strings for a 1-byte digest + structured sha256/sha512 variants",
   text="Every inventory multiset up to 4/5 artifacts over 4 versions x os x arch x metadata is resolved for every query (all version/metadata predicates) under a total order, a product partial order and f32-with-NaN, and the result is checked with a validity predicate; sampled semver inventories round-trip through TOML; checksum acceptance is compared with a hand-written grammar.",
   note="Validity predicate and checksum grammar are the harness's own; requirements are pure predicates; partial orders are transitive."),
 "C19": dict(cat="exploration", tech="bounded-exhaustive enumeration of inputs x all chunkings (MappedWrite/TeeWrite) against a reference segmenter; proptest-generated child write scripts run through both streaming APIs with bytewise comparison and a /proc-based deadlock watchdog",
   text="MappedWrite and TeeWrite are checked on every byte string up to length 8/10 over {marker,a,b} under every way of chunking it into write calls, with both finalisers and short-writing targets; child processes execute generated write scripts (0 to 4 pipe buffers, either stream first, threads per stream, early close) and every byte and the exit status must arrive; a watchdog that finds the child blocked in write(2) reports a deadlock.",
   note="The kernel scheduler is not controlled (only the child's write pattern is); watchdog expiry in any state other than child-blocked-in-write is reported as inconclusive (exit 2)."),
 "C04": dict(cat="exploration", tech="bounded-exhaustive enumeration + proptest sampling against a reference model of the CNB env rules; permutation metamorphic relation",
   text="Every LayerEnv with <=2 entries over a class-representative alphabet is applied for all query scopes and all 16 starting envs and compared with an independent reference apply (exhaustive for that sub-space); 20k/1M sampled larger envs with byte-string names/values. Exploration: no absence claim beyond the enumerated sub-space.",
   note="Trusts the harness's reference transcription of the spec's modification rules (envmodel.rs)."),
}

PENDING_REASON = "check not built yet in this session (work in progress; see DESIGN.md section 3 for the planned generator/oracle)"
ALL = ["C%02d" % i for i in range(1, 21)]

m = {
 "version": 1,
 "setup_cmd": "./setup.sh",
 "hooks": {
   "guard": "heroku_libcnb_rs_verif",
   "enable": "no hooks are needed: all observation points are public API or process boundaries; checks build /repo's crates as plain path dependencies of /verif/harness",
   "baseline_off_cmd": "cd /repo && cargo test --workspace --no-fail-fast --offline",
   "source_commits": [],
   "add_only": True,
 },
 "engines": [
   {"name": "vh", "path": "harness/", "serves_properties": sorted(CHECKS), "kind_free_text": "Rust harness: proptest 1.11 driven from a binary (fixed seed, shrinking, JSON replay files), bounded-exhaustive enumerators, reference models, process-level workers (vworker), scripted buildpack (vbp), stand-in docker/pack (vstub), scripted child (vchild), LD_PRELOAD fault shim (shim/faultfs.c), independent TOML reader (py/tomlread.py)"},
 ],
 "checks": [],
 "notes": "All checks: ./check <ID> quick|thorough; replay: ./check <ID> --replay <file>. Exit 2 = inconclusive (never a violation).",
 "not_applicable": [],
}
for pid in ALL:
    if pid in CHECKS:
        c = CHECKS[pid]
        m["checks"].append({
          "property_id": pid,
          "quick_cmd": f"./check {pid} quick",
          "thorough_cmd": f"./check {pid} thorough",
          "evidence_file": f"/verif/evidence/{pid}.json",
          "replay_cmd_template": f"./check {pid} --replay {{path}}",
          "engine": "vh",
          "level_claimed": {"category": c["cat"], "text": c["text"], "design_ref": f"DESIGN.md section 3, {pid}"},
          "level_note": c["note"],
          "technique": c["tech"],
        })
    else:
        m["not_applicable"].append({"property_id": pid, "reason": PENDING_REASON})
json.dump(m, open("MANIFEST.json", "w"), indent=1)
print("checks:", len(m["checks"]), "pending:", len(m["not_applicable"]))
