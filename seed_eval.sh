#!/usr/bin/env bash
# seed_eval.sh <ID> <x> [check ids...]: confirm a seeded change produced in /tmp/seed/<ID>/SEED/<x> and run checks against it.
# 1. demo fails with the change / passes without (in the scratch worktree), 2. existing tests pass with the change,
# 3. the property's quick check (and optional further checks) against /repo with the patch applied, reverted afterwards.
set -u
ID=$1; X=$2; shift 2
CHECKS=${*:-$ID}
WT=${SEED_WT:-${SEED_BASE:-/tmp/seed}/$ID}
S=$WT/SEED/$X
OUT=/verif/seeded/$ID-${SEED_TAG:-}$X
mkdir -p $OUT
PHASE=${SEED_PHASE:-all}   # confirm (scratch worktree only, may run in parallel for different worktrees) | checks (/repo, serial) | all
cd $WT || exit 2
if [ "$PHASE" != checks ]; then
git checkout -q -- . ; git apply --check $S/patch.diff || { echo "PATCH DOES NOT APPLY"; exit 2; }
# demo without change
bash $S/run_demo.sh > $OUT/demo_without_change.log 2>&1; rc_without=$?
git checkout -q -- .; git clean -fdq -e SEED -e target >/dev/null 2>&1
git apply $S/patch.diff
bash $S/run_demo.sh > $OUT/demo_with_change.log 2>&1; rc_with=$?
# existing suite with the change (nextest = the baseline's runner; doctests are not part of the baseline)
cargo nextest run --workspace --no-fail-fast --offline > $OUT/existing_tests_with_change.log 2>&1; rc_tests=$?
tests_summary=$(grep -E "^\s*Summary" $OUT/existing_tests_with_change.log | tail -1)
git checkout -q -- .; git clean -fdq -e SEED -e target >/dev/null 2>&1
echo "demo without change rc=$rc_without ; with change rc=$rc_with ; existing tests rc=$rc_tests $tests_summary"
printf 'rc_without=%q\nrc_with=%q\nrc_tests=%q\ntests_summary=%q\n' "$rc_without" "$rc_with" "$rc_tests" "$tests_summary" > $OUT/confirm.env
fi
[ "$PHASE" = confirm ] && exit 0
. $OUT/confirm.env || exit 2
# checks against /repo
cd /repo && git status --short | grep -v '^??' | head -1 | grep -q . && { echo "/repo not clean"; exit 2; }
git -C /repo apply $S/patch.diff || exit 2
res=""
for c in $CHECKS; do
  out=$(cd /verif && ./check $c quick 2>&1); rc=$?
  sig=$(echo "$out" | grep -m1 "signature:" | sed 's/.*signature: //')
  echo "check $c rc=$rc $sig"
  echo "$out" | grep -E "VIOLATION|signature|detail" | head -6 > $OUT/check_$c.log
  res="$res $c:rc=$rc:$sig"
done
git -C /repo checkout -- .
# remove replay files produced by seeded runs (they document the seed, not a finding of the real tree)
for c in $CHECKS; do find /verif/replays/$c -maxdepth 1 -name '*.json' -newer $S/patch.diff -exec mv {} $OUT/ \; 2>/dev/null; done
cp $S/patch.diff $OUT/patch.diff
mkdir -p $OUT/demo; cp -r $S/* $OUT/demo/ 2>/dev/null; rm -f $OUT/demo/patch.diff
python3 - "$S/meta.json" "$OUT/meta.json" "$rc_without" "$rc_with" "$rc_tests" "$tests_summary" "$res" <<'PY'
import json,sys
src,dst,rw,rc,rt,ts,res=sys.argv[1:8]
try: m=json.load(open(src))
except Exception: m={}
m["confirmed"]={"demo_without_change_exit":int(rw),"demo_with_change_exit":int(rc),"existing_tests_with_change_exit":int(rt),"existing_tests_summary":ts.strip(),
  "what_was_run":"seed_eval.sh: run_demo.sh on the clean scratch worktree and with the patch applied; cargo nextest run --workspace --offline with the patch; ./check <ID> quick against /repo with the patch applied (git apply), then git checkout -- ."}
m["checks"]=[dict(zip(["check","exit","signature"],[r.split(":")[0],r.split(":")[1].replace("rc=",""),":".join(r.split(":")[2:])])) for r in res.split()]
json.dump(m,open(dst,"w"),indent=1)
PY
