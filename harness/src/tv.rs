//! The harness's own TOML value model: emitter for test inputs (so documents fed to libcnb are not produced
//! by the code under test), reader client for the independent Python tomllib server, conversions.

use crate::core::verif_root;
use proptest::prelude::*;
use serde_json::{Value, json};
use std::io::{BufRead, BufReader, Write};
use std::process::{Child, ChildStdin, ChildStdout, Command, Stdio};

#[derive(Clone, Debug, PartialEq)]
pub enum TV {
    Str(String),
    Int(i64),
    Float(f64),
    Bool(bool),
    /// datetime in its textual form (local date-time or local date only, to stay reader-independent)
    Datetime(String),
    Array(Vec<TV>),
    Table(Vec<(String, TV)>),
}

impl TV {
    pub fn table(pairs: Vec<(&str, TV)>) -> TV {
        TV::Table(pairs.into_iter().map(|(k, v)| (k.to_string(), v)).collect())
    }
    pub fn s(x: &str) -> TV {
        TV::Str(x.to_string())
    }
    pub fn get(&self, k: &str) -> Option<&TV> {
        match self {
            TV::Table(t) => t.iter().find(|(kk, _)| kk == k).map(|(_, v)| v),
            _ => None,
        }
    }
    pub fn as_str(&self) -> Option<&str> {
        match self {
            TV::Str(s) => Some(s),
            _ => None,
        }
    }
    pub fn as_array(&self) -> Option<&Vec<TV>> {
        match self {
            TV::Array(a) => Some(a),
            _ => None,
        }
    }
    pub fn as_table(&self) -> Option<&Vec<(String, TV)>> {
        match self {
            TV::Table(a) => Some(a),
            _ => None,
        }
    }
    pub fn depth(&self) -> usize {
        match self {
            TV::Array(a) => 1 + a.iter().map(TV::depth).max().unwrap_or(0),
            TV::Table(t) => 1 + t.iter().map(|(_, v)| v.depth()).max().unwrap_or(0),
            _ => 0,
        }
    }

    /// order-insensitive (tables) semantic equality; floats by value
    pub fn sem_eq(&self, o: &TV) -> bool {
        match (self, o) {
            (TV::Table(a), TV::Table(b)) => {
                a.len() == b.len() && a.iter().all(|(k, v)| b.iter().any(|(k2, v2)| k == k2 && v.sem_eq(v2)))
            }
            (TV::Array(a), TV::Array(b)) => a.len() == b.len() && a.iter().zip(b).all(|(x, y)| x.sem_eq(y)),
            (TV::Float(a), TV::Float(b)) => a == b || (a.is_nan() && b.is_nan()),
            (a, b) => a == b,
        }
    }

    pub fn to_json(&self) -> Value {
        match self {
            TV::Str(s) => json!({"s": s}),
            TV::Int(i) => json!({"i": i.to_string()}),
            TV::Float(f) => json!({"f": format!("{f:?}")}),
            TV::Bool(b) => json!({"b": b}),
            TV::Datetime(d) => json!({"d": d}),
            TV::Array(a) => json!({"a": a.iter().map(TV::to_json).collect::<Vec<_>>()}),
            TV::Table(t) => json!({"t": t.iter().map(|(k, v)| json!([k, v.to_json()])).collect::<Vec<_>>()}),
        }
    }

    pub fn from_json(v: &Value) -> TV {
        let o = v.as_object().expect("tagged value");
        let (k, x) = o.iter().next().expect("tag");
        match k.as_str() {
            "s" => TV::Str(x.as_str().unwrap().to_string()),
            "i" => TV::Int(x.as_str().unwrap().parse().expect("int")),
            "f" => TV::Float(match x.as_str().unwrap() {
                "nan" => f64::NAN,
                "inf" => f64::INFINITY,
                "-inf" => f64::NEG_INFINITY,
                s => s.parse().expect("float"),
            }),
            "b" => TV::Bool(x.as_bool().unwrap()),
            "d" => TV::Datetime(x.as_str().unwrap().to_string()),
            "a" => TV::Array(x.as_array().unwrap().iter().map(TV::from_json).collect()),
            "t" => TV::Table(
                x.as_array()
                    .unwrap()
                    .iter()
                    .map(|kv| (kv[0].as_str().unwrap().to_string(), TV::from_json(&kv[1])))
                    .collect(),
            ),
            other => panic!("unknown tag {other}"),
        }
    }

    pub fn to_toml(&self) -> toml::Value {
        match self {
            TV::Str(s) => toml::Value::String(s.clone()),
            TV::Int(i) => toml::Value::Integer(*i),
            TV::Float(f) => toml::Value::Float(*f),
            TV::Bool(b) => toml::Value::Boolean(*b),
            TV::Datetime(d) => toml::Value::Datetime(d.parse().expect("datetime")),
            TV::Array(a) => toml::Value::Array(a.iter().map(TV::to_toml).collect()),
            TV::Table(t) => toml::Value::Table(t.iter().map(|(k, v)| (k.clone(), v.to_toml())).collect()),
        }
    }

    pub fn to_toml_table(&self) -> toml::Table {
        match self.to_toml() {
            toml::Value::Table(t) => t,
            _ => panic!("not a table"),
        }
    }

    pub fn from_toml(v: &toml::Value) -> TV {
        match v {
            toml::Value::String(s) => TV::Str(s.clone()),
            toml::Value::Integer(i) => TV::Int(*i),
            toml::Value::Float(f) => TV::Float(*f),
            toml::Value::Boolean(b) => TV::Bool(*b),
            toml::Value::Datetime(d) => TV::Datetime(d.to_string()),
            toml::Value::Array(a) => TV::Array(a.iter().map(TV::from_toml).collect()),
            toml::Value::Table(t) => TV::Table(t.iter().map(|(k, v)| (k.clone(), TV::from_toml(v))).collect()),
        }
    }

    pub fn from_toml_table(t: &toml::Table) -> TV {
        TV::Table(t.iter().map(|(k, v)| (k.clone(), TV::from_toml(v))).collect())
    }
}

// ---------------- emitter ----------------

fn emit_string(s: &str) -> String {
    let mut o = String::from("\"");
    for c in s.chars() {
        match c {
            '"' => o.push_str("\\\""),
            '\\' => o.push_str("\\\\"),
            '\n' => o.push_str("\\n"),
            '\r' => o.push_str("\\r"),
            '\t' => o.push_str("\\t"),
            c if (c as u32) < 0x20 || c as u32 == 0x7f => o.push_str(&format!("\\u{:04X}", c as u32)),
            c => o.push(c),
        }
    }
    o.push('"');
    o
}

pub fn emit_key(k: &str) -> String {
    if !k.is_empty() && k.chars().all(|c| c.is_ascii_alphanumeric() || c == '_' || c == '-') {
        k.to_string()
    } else {
        emit_string(k)
    }
}

fn emit_float(f: f64) -> String {
    if f.is_nan() {
        "nan".into()
    } else if f.is_infinite() {
        if f > 0.0 { "inf".into() } else { "-inf".into() }
    } else {
        let s = format!("{f:?}");
        if s.contains('.') || s.contains('e') || s.contains('E') { s } else { format!("{s}.0") }
    }
}

pub fn emit_inline(v: &TV) -> String {
    match v {
        TV::Str(s) => emit_string(s),
        TV::Int(i) => i.to_string(),
        TV::Float(f) => emit_float(*f),
        TV::Bool(b) => b.to_string(),
        TV::Datetime(d) => d.clone(),
        TV::Array(a) => format!("[{}]", a.iter().map(emit_inline).collect::<Vec<_>>().join(", ")),
        TV::Table(t) => format!(
            "{{{}}}",
            t.iter().map(|(k, v)| format!("{} = {}", emit_key(k), emit_inline(v))).collect::<Vec<_>>().join(", ")
        ),
    }
}

fn is_array_of_tables(v: &TV) -> bool {
    matches!(v, TV::Array(a) if !a.is_empty() && a.iter().all(|x| matches!(x, TV::Table(_))))
}

fn emit_table_body(path: &str, t: &[(String, TV)], out: &mut String) {
    for (k, v) in t {
        if !matches!(v, TV::Table(_)) && !is_array_of_tables(v) {
            out.push_str(&format!("{} = {}\n", emit_key(k), emit_inline(v)));
        }
    }
    for (k, v) in t {
        let sub = if path.is_empty() { emit_key(k) } else { format!("{path}.{}", emit_key(k)) };
        match v {
            TV::Table(inner) => {
                out.push_str(&format!("\n[{sub}]\n"));
                emit_table_body(&sub, inner, out);
            }
            TV::Array(a) if is_array_of_tables(v) => {
                for e in a {
                    out.push_str(&format!("\n[[{sub}]]\n"));
                    if let TV::Table(inner) = e {
                        emit_table_body(&sub, inner, out);
                    }
                }
            }
            _ => {}
        }
    }
}

/// Emit a document (top-level table).
pub fn emit_doc(v: &TV) -> String {
    let mut out = String::new();
    match v {
        TV::Table(t) => emit_table_body("", t, &mut out),
        _ => panic!("document must be a table"),
    }
    out
}

// ---------------- generators ----------------

pub fn nasty_char() -> impl Strategy<Value = char> {
    prop_oneof![
        10 => prop_oneof![Just('a'), Just('Z'), Just('0'), Just(' '), Just('-'), Just('_'), Just('.'), Just('/')],
        6 => prop_oneof![Just('"'), Just('\\'), Just('\''), Just('\n'), Just('\r'), Just('\t'), Just('\0'), Just('\u{1}'), Just('\u{7f}'), Just('\u{85}'), Just('\u{2028}'), Just('\u{feff}'), Just('#'), Just('='), Just('['), Just(']'), Just('{'), Just(','), Just('\u{1F600}'), Just('é'), Just('$')],
        1 => any::<char>(),
    ]
}

pub fn nasty_string(max: usize) -> impl Strategy<Value = String> {
    prop_oneof![
        1 => Just(String::new()),
        1 => Just("\"\"\"".to_string()),
        1 => Just("'''".to_string()),
        1 => Just("\\".to_string()),
        1 => Just("a\\nb".to_string()),
        12 => proptest::collection::vec(nasty_char(), 0..max).prop_map(|v| v.into_iter().collect()),
    ]
}

pub fn key_string() -> impl Strategy<Value = String> {
    prop_oneof![
        6 => "[a-z][a-z0-9_-]{0,6}",
        3 => nasty_string(6),
    ]
}

pub fn scalar_tv() -> impl Strategy<Value = TV> {
    prop_oneof![
        4 => nasty_string(10).prop_map(TV::Str),
        2 => prop_oneof![Just(0i64), Just(-1), Just(i64::MAX), Just(i64::MIN), any::<i64>()].prop_map(TV::Int),
        2 => prop_oneof![Just(0.0f64), Just(-0.5), Just(1e300), Just(3.25), Just(1e-7), (-1000i32..1000).prop_map(|x| x as f64 / 8.0)].prop_map(TV::Float),
        2 => any::<bool>().prop_map(TV::Bool),
        1 => prop_oneof![Just("1979-05-27T07:32:00"), Just("2026-10-02")].prop_map(|s| TV::Datetime(s.to_string())),
    ]
}

fn dedupe_keys(v: Vec<(String, TV)>) -> Vec<(String, TV)> {
    let mut out: Vec<(String, TV)> = vec![];
    for (k, x) in v {
        if !out.iter().any(|(k2, _)| *k2 == k) {
            out.push((k, x));
        }
    }
    out
}

/// arbitrary nested value (arrays may be heterogeneous, which TOML 1.0 allows)
pub fn any_tv(depth: u32) -> BoxedStrategy<TV> {
    if depth == 0 {
        return scalar_tv().boxed();
    }
    prop_oneof![
        5 => scalar_tv(),
        2 => proptest::collection::vec(any_tv(depth - 1), 0..4).prop_map(TV::Array),
        2 => proptest::collection::vec((key_string(), any_tv(depth - 1)), 0..4).prop_map(|v| TV::Table(dedupe_keys(v))),
    ]
    .boxed()
}

/// free-form metadata table
pub fn meta_table(depth: u32) -> impl Strategy<Value = TV> {
    proptest::collection::vec((key_string(), any_tv(depth)), 0..5).prop_map(|v| TV::Table(dedupe_keys(v)))
}

// ---------------- independent reader ----------------

pub struct TomlReader {
    child: Child,
    stdin: ChildStdin,
    stdout: BufReader<ChildStdout>,
}

impl TomlReader {
    pub fn new() -> Self {
        let script = verif_root().join("py/tomlread.py");
        let mut child = Command::new("python3")
            .arg(script)
            .env("PYTHONUTF8", "1")
            .env("PYTHONIOENCODING", "utf-8")
            .stdin(Stdio::piped())
            .stdout(Stdio::piped())
            .spawn()
            .expect("harness: spawn python3 tomlread.py");
        let stdin = child.stdin.take().unwrap();
        let stdout = BufReader::new(child.stdout.take().unwrap());
        TomlReader { child, stdin, stdout }
    }

    /// Ok(value) or Err(parse error message of the independent reader)
    pub fn read(&mut self, text: &str) -> Result<TV, String> {
        let req = json!({"toml": text}).to_string();
        self.stdin.write_all(req.as_bytes()).expect("harness: tomlread write");
        self.stdin.write_all(b"\n").expect("harness: tomlread write");
        self.stdin.flush().expect("harness: tomlread flush");
        let mut line = String::new();
        self.stdout.read_line(&mut line).expect("harness: tomlread read");
        let v: Value = serde_json::from_str(&line).unwrap_or_else(|e| panic!("harness: tomlread protocol: {e}: {line:?}"));
        if v["ok"].as_bool() == Some(true) {
            Ok(TV::from_json(&v["v"]))
        } else {
            Err(v["err"].as_str().unwrap_or("?").to_string())
        }
    }

    pub fn read_file(&mut self, path: &std::path::Path) -> Result<TV, String> {
        let bytes = std::fs::read(path).map_err(|e| format!("read {}: {e}", path.display()))?;
        let text = String::from_utf8(bytes).map_err(|_| "file is not UTF-8".to_string())?;
        self.read(&text)
    }
}

impl Default for TomlReader {
    fn default() -> Self {
        Self::new()
    }
}

impl Drop for TomlReader {
    fn drop(&mut self) {
        let _ = self.child.kill();
        let _ = self.child.wait();
    }
}
