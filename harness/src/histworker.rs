//! Containment for in-process histories (C01, C02): histories are executed by a `vworker hist` child process, so that a
//! hard crash of the code under test (stack overflow from unbounded recursion, abort) is observed as a failed case with
//! the history as replay instead of killing the engine.

use crate::core::{Fail, bin_dir};
use serde_json::{Value, json};
use std::io::{BufRead, BufReader, Write};
use std::path::{Path, PathBuf};
use std::process::{Child, ChildStdin, ChildStdout, Command, Stdio};

pub struct Outcome {
    pub steps: usize,
    pub nontrivial: bool,
    pub classes: Vec<String>,
    pub fail: Option<Fail>,
}

pub struct HistWorker {
    prop: &'static str,
    names: usize,
    scratch: PathBuf,
    child: Child,
    stdin: ChildStdin,
    stdout: BufReader<ChildStdout>,
}

fn spawn(prop: &str, names: usize, scratch: &Path) -> (Child, ChildStdin, BufReader<ChildStdout>) {
    let mut child = Command::new(bin_dir().join("vworker"))
        .arg("hist")
        .arg(prop)
        .arg(names.to_string())
        .arg(scratch)
        .stdin(Stdio::piped())
        .stdout(Stdio::piped())
        .stderr(Stdio::null())
        .spawn()
        .expect("harness: spawn vworker hist");
    let stdin = child.stdin.take().unwrap();
    let stdout = BufReader::new(child.stdout.take().unwrap());
    (child, stdin, stdout)
}

impl HistWorker {
    pub fn new(prop: &'static str, names: usize, scratch: &Path) -> Self {
        let (child, stdin, stdout) = spawn(prop, names, scratch);
        HistWorker { prop, names, scratch: scratch.to_path_buf(), child, stdin, stdout }
    }

    pub fn run(&mut self, history: &Value) -> Outcome {
        let line = history.to_string();
        let sent = self.stdin.write_all(line.as_bytes()).and_then(|_| self.stdin.write_all(b"\n")).and_then(|_| self.stdin.flush());
        let mut reply = String::new();
        let got = if sent.is_ok() { self.stdout.read_line(&mut reply).unwrap_or(0) } else { 0 };
        if got == 0 {
            // the worker died while executing this history
            let status = self.child.wait().map(|s| format!("{s:?}")).unwrap_or_else(|e| e.to_string());
            let (child, stdin, stdout) = spawn(self.prop, self.names, &self.scratch);
            self.child = child;
            self.stdin = stdin;
            self.stdout = stdout;
            return Outcome {
                steps: 0,
                nontrivial: false,
                classes: vec![],
                fail: Some(Fail::new(format!("{}:crash-in-code-under-test", self.prop.to_uppercase()), format!("the process executing this history died ({status}): the code under test crashed hard (stack overflow / abort)"))),
            };
        }
        let v: Value = serde_json::from_str(&reply).unwrap_or(json!({"fail": {"sig": "harness:worker-protocol", "msg": reply}}));
        Outcome {
            steps: v["steps"].as_u64().unwrap_or(0) as usize,
            nontrivial: v["nontrivial"].as_bool().unwrap_or(false),
            classes: v["classes"].as_array().map(|a| a.iter().map(|c| c.as_str().unwrap_or("").to_string()).collect()).unwrap_or_default(),
            fail: if v["fail"].is_null() { None } else { Some(Fail::new(v["fail"]["sig"].as_str().unwrap_or("?"), v["fail"]["msg"].as_str().unwrap_or("?"))) },
        }
    }
}

impl Drop for HistWorker {
    fn drop(&mut self) {
        let _ = self.child.kill();
        let _ = self.child.wait();
    }
}
