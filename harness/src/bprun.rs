//! Running the scripted buildpack executable (`vbp`) as the lifecycle would: through a symlink that decides argv[0],
//! with a cleared environment plus the CNB_* variables of the scenario.

use crate::core::bin_dir;
use serde_json::Value;
use std::ffi::OsString;
use std::path::{Path, PathBuf};

pub struct BpRun<'a> {
    pub root: &'a Path,
    pub exe_name: &'a str,
    pub args: Vec<OsString>,
    pub env: Vec<(OsString, OsString)>,
    pub script: &'a Value,
    pub extra_env: Vec<(OsString, OsString)>,
}

#[derive(Debug)]
pub struct BpOutcome {
    pub code: Option<i32>,
    pub markers: Vec<String>,
    pub dump: Option<Value>,
    pub stderr: String,
}

impl BpOutcome {
    pub fn count(&self, m: &str) -> usize {
        self.markers.iter().filter(|l| l.as_str() == m || l.starts_with(&format!("{m} "))).count()
    }
}

/// standard scenario layout below `root`
pub struct Dirs {
    pub buildpack: PathBuf,
    pub app: PathBuf,
    pub layers: PathBuf,
    pub platform: PathBuf,
    pub plan: PathBuf,
    pub ctl: PathBuf,
}

pub fn dirs(root: &Path) -> Dirs {
    Dirs { buildpack: root.join("buildpack"), app: root.join("app dir"), layers: root.join("layers"), platform: root.join("platform"), plan: root.join("plan.toml"), ctl: root.join("ctl") }
}

pub fn setup_dirs(root: &Path) -> Dirs {
    let d = dirs(root);
    for p in [&d.buildpack, &d.app, &d.layers, &d.platform, &d.ctl] {
        std::fs::create_dir_all(p).unwrap();
    }
    d
}

pub const VALID_BUILDPACK_TOML: &str = "api = \"0.10\"\n\n[buildpack]\nid = \"verif/bp\"\nversion = \"1.2.3\"\n";

pub fn full_env(d: &Dirs) -> Vec<(OsString, OsString)> {
    vec![
        ("CNB_BUILDPACK_DIR".into(), d.buildpack.clone().into_os_string()),
        ("CNB_TARGET_OS".into(), "linux".into()),
        ("CNB_TARGET_ARCH".into(), "amd64".into()),
        ("CNB_TARGET_ARCH_VARIANT".into(), "v8".into()),
        ("CNB_TARGET_DISTRO_NAME".into(), "ubuntu".into()),
        ("CNB_TARGET_DISTRO_VERSION".into(), "24.04".into()),
    ]
}

/// A complete, valid scenario of ANOTHER buildpack (different id, version, metadata, platform env, plan, store) that `vbp`
/// runs in-process before the real invocation when VBP_WARMUP_ROOT points to it. Returns the directory.
pub fn prepare_warmup(root: &Path) -> PathBuf {
    let w = root.join("warmup");
    for d in ["buildpack", "app", "layers", "platform/env"] {
        std::fs::create_dir_all(w.join(d)).unwrap();
    }
    std::fs::write(w.join("buildpack/buildpack.toml"), "api = \"0.10\"\n\n[buildpack]\nid = \"warm/up\"\nversion = \"9.9.9\"\nname = \"the other buildpack\"\nclear-env = true\nkeywords = [\"warm\"]\n\n[[targets]]\nos = \"warm-os\"\narch = \"warm-arch\"\n\n[metadata]\nwarm = \"up\"\n").unwrap();
    std::fs::write(w.join("platform/env/WARM_ONLY"), b"from the warm-up platform").unwrap();
    std::fs::write(w.join("platform/env/FROM_PLATFORM"), b"warm").unwrap();
    std::fs::write(w.join("plan.toml"), "[[entries]]\nname = \"warm-entry\"\n[entries.metadata]\nwarm = true\n").unwrap();
    std::fs::write(w.join("layers/store.toml"), "[metadata]\nwarm = \"store\"\n").unwrap();
    std::fs::write(w.join("script.json"), "{\"dump\": false, \"detect\": \"pass\", \"build\": {\"kind\": \"ok\"}}").unwrap();
    w
}

pub fn run(r: &BpRun) -> BpOutcome {
    let d = dirs(r.root);
    std::fs::create_dir_all(&d.ctl).unwrap();
    let bin = d.ctl.join("bin");
    std::fs::create_dir_all(&bin).unwrap();
    // "@arg0:<argv0>:<file name>": the executable FILE is really called <file name> (a copy, as in a packaged buildpack
    // where bin/build is the binary itself) but the process is started with the given argv[0]
    let (exe, arg0): (PathBuf, Option<String>) = match r.exe_name.strip_prefix("@arg0:").and_then(|s| s.split_once(':')) {
        Some((argv0, file)) => {
            let exe = bin.join(file);
            let _ = std::fs::remove_file(&exe);
            if std::fs::hard_link(bin_dir().join("vbp"), &exe).is_err() {
                std::fs::copy(bin_dir().join("vbp"), &exe).expect("harness: copy vbp");
            }
            (exe, Some(argv0.to_string()))
        }
        None => {
            let exe = bin.join(r.exe_name);
            let _ = std::fs::remove_file(&exe);
            std::os::unix::fs::symlink(bin_dir().join("vbp"), &exe).unwrap();
            (exe, None)
        }
    };
    let script_path = d.ctl.join("script.json");
    std::fs::write(&script_path, r.script.to_string()).unwrap();
    let markers = d.ctl.join("markers");
    let dump = d.ctl.join("dump.json");
    let _ = std::fs::remove_file(&markers);
    let _ = std::fs::remove_file(&dump);
    let mut cmd = std::process::Command::new(&exe);
    if let Some(a0) = &arg0 {
        std::os::unix::process::CommandExt::arg0(&mut cmd, a0);
    }
    cmd.args(&r.args)
        .env_clear()
        .envs(r.env.iter().cloned())
        .envs(r.extra_env.iter().cloned())
        .env("VBP_SCRIPT", &script_path)
        .env("VBP_MARKERS", &markers)
        .env("VBP_DUMP", &dump)
        .current_dir(&d.app)
        .stdin(std::process::Stdio::null());
    let out = cmd.output().expect("harness: spawn vbp");
    BpOutcome {
        code: out.status.code(),
        markers: std::fs::read_to_string(&markers).map(|s| s.lines().map(String::from).collect()).unwrap_or_default(),
        dump: std::fs::read_to_string(&dump).ok().and_then(|s| serde_json::from_str(&s).ok()),
        stderr: String::from_utf8_lossy(&out.stderr).to_string(),
    }
}
