//! Reference model of a layers directory (shared by C01, C02, C11, C12, C20): what each layer must look like on disk,
//! the lifecycle's cache-restore abstraction, and comparison of the real directory with the model.

use crate::core::{Check, Fail};
use crate::envmodel::{EnvEntry, dedupe, render};
use crate::fsutil::{self, Kind};
use crate::tv::{TV, TomlReader, emit_doc};
use libcnb::build::{BuildContext, BuildResult};
use libcnb::data::buildpack_plan::BuildpackPlan;
use libcnb::detect::{DetectContext, DetectResult};
use libcnb::generic::{GenericMetadata, GenericPlatform};
use libcnb::{Buildpack, Env, Target};
use std::cell::RefCell;
use std::collections::BTreeMap;
use std::path::{Path, PathBuf};

pub const SBOM_EXT: [&str; 3] = ["cdx.json", "spdx.json", "syft.json"];

pub fn sbom_format(i: u8) -> libcnb::data::sbom::SbomFormat {
    use libcnb::data::sbom::SbomFormat::*;
    match i {
        0 => CycloneDxJson,
        1 => SpdxJson,
        _ => SyftJson,
    }
}

#[derive(Clone, Debug, PartialEq)]
pub struct MToml {
    /// (build, launch, cache)
    pub types: Option<(bool, bool, bool)>,
    pub metadata: Option<TV>,
}

#[derive(Clone, Debug, Default, PartialEq)]
pub struct MLayer {
    pub dir: bool,
    pub toml: Option<MToml>,
    pub sboms: BTreeMap<u8, Vec<u8>>,
    pub env: Vec<EnvEntry>,
    pub execd: BTreeMap<String, Vec<u8>>,
    pub plain: BTreeMap<String, Vec<u8>>,
    /// symbolic links inside the layer: relative path -> target (dangling targets included)
    pub links: BTreeMap<String, String>,
}

impl MLayer {
    pub fn fresh(types: (bool, bool, bool)) -> MLayer {
        MLayer { dir: true, toml: Some(MToml { types: Some(types), metadata: None }), ..Default::default() }
    }
    /// regular files the layer directory must contain: relative path -> bytes
    pub fn expected_files(&self) -> BTreeMap<Vec<u8>, Vec<u8>> {
        let mut out: BTreeMap<Vec<u8>, Vec<u8>> = BTreeMap::new();
        for (p, d) in &self.plain {
            out.insert(p.clone().into_bytes(), d.clone());
        }
        for (p, d) in render(&self.env) {
            out.insert(p, d);
        }
        for (n, d) in &self.execd {
            out.insert(format!("exec.d/{n}").into_bytes(), d.clone());
        }
        out
    }
    pub fn carries_data(&self) -> bool {
        self.dir && (!self.sboms.is_empty() || !self.env.is_empty() || !self.execd.is_empty() || self.toml.as_ref().map(|t| t.metadata.is_some()).unwrap_or(false))
    }
    pub fn set_env(&mut self, e: &[EnvEntry]) {
        self.env = dedupe(e);
    }
}

#[derive(Clone, Debug, Default, PartialEq)]
pub struct Model {
    pub layers: BTreeMap<String, MLayer>,
}

impl Model {
    pub fn layer(&mut self, name: &str) -> &mut MLayer {
        self.layers.entry(name.to_string()).or_default()
    }

    /// The platform's behaviour between two builds, as stated in C01's quantifier.
    pub fn restore(&mut self) {
        for l in self.layers.values_mut() {
            let types = l.toml.as_ref().and_then(|t| t.types);
            match types {
                Some((_, _, true)) if l.dir => {
                    if let Some(t) = l.toml.as_mut() {
                        t.types = None;
                    }
                }
                Some((_, true, false)) => {
                    let md = l.toml.as_ref().and_then(|t| t.metadata.clone());
                    *l = MLayer { dir: false, toml: Some(MToml { types: None, metadata: md }), ..Default::default() };
                }
                _ => *l = MLayer::default(),
            }
        }
    }
}

pub fn toml_text(t: &MToml) -> String {
    let mut doc = vec![];
    if let Some((b, l, c)) = t.types {
        doc.push(("types".to_string(), TV::Table(vec![("launch".into(), TV::Bool(l)), ("build".into(), TV::Bool(b)), ("cache".into(), TV::Bool(c))])));
    }
    if let Some(m) = &t.metadata {
        doc.push(("metadata".to_string(), m.clone()));
    }
    emit_doc(&TV::Table(doc))
}

/// Bring the real directory from `before` to `after` the way the lifecycle would (only what restore changes).
pub fn restore_on_disk(layers_dir: &Path, after: &Model) {
    for (name, l) in &after.layers {
        let dir = layers_dir.join(name);
        let toml = layers_dir.join(format!("{name}.toml"));
        if !l.dir {
            let _ = fsutil::force_remove(&dir);
        }
        match &l.toml {
            None => {
                let _ = std::fs::remove_file(&toml);
            }
            Some(t) => std::fs::write(&toml, toml_text(t)).unwrap(),
        }
        for (i, ext) in SBOM_EXT.iter().enumerate() {
            if !l.sboms.contains_key(&(i as u8)) {
                let _ = std::fs::remove_file(layers_dir.join(format!("{name}.sbom.{ext}")));
            }
        }
    }
}

thread_local! {
    static READER: RefCell<Option<TomlReader>> = const { RefCell::new(None) };
}

pub fn read_toml_independent(text: &str) -> Result<TV, String> {
    READER.with(|r| {
        let mut r = r.borrow_mut();
        if r.is_none() {
            *r = Some(TomlReader::new());
        }
        r.as_mut().unwrap().read(text)
    })
}

/// (types, metadata) of a content-metadata file as the independent reader sees it
pub fn read_layer_toml(path: &Path) -> Result<MToml, String> {
    let text = std::fs::read_to_string(path).map_err(|e| format!("{}: {e}", path.display()))?;
    let tv = read_toml_independent(&text)?;
    let types = tv.get("types").map(|t| {
        let f = |k: &str| matches!(t.get(k), Some(TV::Bool(true)));
        (f("build"), f("launch"), f("cache"))
    });
    Ok(MToml { types, metadata: tv.get("metadata").cloned() })
}

/// Metadata values as a spec reader sees them: an absent `[metadata]` table and an empty one are the same value.
pub fn meta_eq(a: &Option<TV>, b: &Option<TV>) -> bool {
    let norm = |v: &Option<TV>| -> Option<TV> {
        match v {
            Some(TV::Table(t)) if t.is_empty() => None,
            other => other.clone(),
        }
    };
    match (norm(a), norm(b)) {
        (None, None) => true,
        (Some(x), Some(y)) => x.sem_eq(&y),
        _ => false,
    }
}

/// Layer types as a spec reader sees them: an absent `[types]` table means all flags false.
pub fn types_eq(a: &Option<(bool, bool, bool)>, b: &Option<(bool, bool, bool)>) -> bool {
    a.unwrap_or((false, false, false)) == b.unwrap_or((false, false, false))
}

/// Compare one layer on disk with its model. `sigp` = property prefix for signatures ("C01").
pub fn compare_layer(sigp: &str, layers_dir: &Path, name: &str, l: &MLayer) -> Check {
    let dir = layers_dir.join(name);
    let md = std::fs::symlink_metadata(&dir);
    let is_dir = md.as_ref().map(|m| m.file_type().is_dir()).unwrap_or(false);
    ensure!(is_dir == l.dir, format!("{sigp}:layer-dir-presence"), "layer {name:?}: directory present={is_dir}, model says {}", l.dir);
    if l.dir {
        let snap = fsutil::snapshot(&dir);
        let mut files: BTreeMap<Vec<u8>, Vec<u8>> = BTreeMap::new();
        let mut links: BTreeMap<String, String> = BTreeMap::new();
        for (p, e) in &snap {
            match e.kind {
                Kind::File => {
                    files.insert(p.clone(), e.data.clone());
                }
                Kind::Dir => {}
                Kind::Symlink => {
                    links.insert(fsutil::show_path(p), fsutil::show_path(&e.data));
                }
                _ => return Err(Fail::new(format!("{sigp}:unexpected-entry-kind"), format!("layer {name:?}: {:?} is {:?}", fsutil::show_path(p), e.kind))),
            }
        }
        if links != l.links {
            let sig = if l.links.is_empty() && l.expected_files().is_empty() { format!("{sigp}:empty-layer-keeps-files") } else { format!("{sigp}:layer-symlinks-differ") };
            return Err(Fail::new(sig, format!("layer {name:?}: symlinks on disk {links:?}, expected {:?}", l.links)));
        }
        let want = l.expected_files();
        if files != want {
            let mut d = vec![];
            let mut kinds = std::collections::BTreeSet::new();
            for (k, v) in &want {
                match files.get(k) {
                    None => {
                        d.push(format!("missing {:?}", fsutil::show_path(k)));
                        kinds.insert(area_of(k));
                    }
                    Some(g) if g != v => {
                        d.push(format!("{:?} differs", fsutil::show_path(k)));
                        kinds.insert(area_of(k));
                    }
                    _ => {}
                }
            }
            let mut leftover = false;
            for k in files.keys() {
                if !want.contains_key(k) {
                    d.push(format!("unexpected {:?}", fsutil::show_path(k)));
                    leftover = true;
                    kinds.insert(area_of(k));
                }
            }
            d.truncate(6);
            let area = kinds.into_iter().collect::<Vec<_>>().join("+");
            let sig = if leftover && want.is_empty() { format!("{sigp}:empty-layer-keeps-files") } else { format!("{sigp}:layer-files-differ:{area}") };
            return Err(Fail::new(sig, format!("layer {name:?}: {}", d.join("; "))));
        }
    }
    // content metadata
    let toml_path = layers_dir.join(format!("{name}.toml"));
    match (&l.toml, toml_path.exists()) {
        (None, true) => return Err(Fail::new(format!("{sigp}:layer-toml-left-over"), format!("layer {name:?}: {}.toml exists, model says absent", name))),
        (Some(_), false) => return Err(Fail::new(format!("{sigp}:layer-toml-missing"), format!("layer {name:?}"))),
        (Some(t), true) => {
            let got = read_layer_toml(&toml_path).map_err(|e| Fail::new(format!("{sigp}:layer-toml-unreadable"), e))?;
            ensure!(types_eq(&got.types, &t.types), format!("{sigp}:layer-types-differ"), "layer {name:?}: types (build,launch,cache) on disk {:?}, expected {:?}", got.types, t.types);
            if !meta_eq(&got.metadata, &t.metadata) {
                let sig = if t.metadata.is_none() { format!("{sigp}:empty-layer-keeps-metadata") } else { format!("{sigp}:layer-metadata-differs") };
                return Err(Fail::new(sig, format!("layer {name:?}: metadata on disk {:?}, expected {:?}", got.metadata, t.metadata)));
            }
        }
        (None, false) => {}
    }
    // SBOM files
    for (i, ext) in SBOM_EXT.iter().enumerate() {
        let p = layers_dir.join(format!("{name}.sbom.{ext}"));
        let got = std::fs::read(&p).ok();
        let want = l.sboms.get(&(i as u8));
        match (got, want) {
            (Some(_), None) => {
                let sig = if l.sboms.is_empty() && l.expected_files().is_empty() { format!("{sigp}:empty-layer-keeps-sbom") } else { format!("{sigp}:sbom-left-over") };
                return Err(Fail::new(sig, format!("layer {name:?}: {name}.sbom.{ext} exists but the layer has no such SBOM")));
            }
            (None, Some(_)) => return Err(Fail::new(format!("{sigp}:sbom-missing"), format!("layer {name:?}: {name}.sbom.{ext} missing"))),
            (Some(g), Some(w)) if g != *w => return Err(Fail::new(format!("{sigp}:sbom-differs"), format!("layer {name:?}: {name}.sbom.{ext} content differs"))),
            _ => {}
        }
    }
    Ok(())
}

fn area_of(p: &[u8]) -> &'static str {
    if p.starts_with(b"env") {
        "env"
    } else if p.starts_with(b"exec.d/") {
        "exec.d"
    } else {
        "files"
    }
}

pub fn compare_disk(sigp: &str, layers_dir: &Path, model: &Model, names: &[&str]) -> Check {
    for n in names {
        let default = MLayer::default();
        let l = model.layers.get(*n).unwrap_or(&default);
        compare_layer(sigp, layers_dir, n, l)?;
    }
    // nothing else at the top level of <layers>
    if let Ok(rd) = std::fs::read_dir(layers_dir) {
        for e in rd.flatten() {
            let f = e.file_name().to_string_lossy().to_string();
            let known = names.iter().any(|n| f == *n || f == format!("{n}.toml") || SBOM_EXT.iter().any(|x| f == format!("{n}.sbom.{x}")));
            ensure!(known, format!("{sigp}:unexpected-entry-in-layers-dir"), "{f:?}");
        }
    }
    Ok(())
}

/// After a callback returned Err the statement does not fix what the layer looks like (unchanged? migrated metadata
/// already written? an empty directory already created?). If the disk does not match the model's guess, adopt the
/// first of the plausible `alternatives` for that layer that does; if none matches the model stays as it is and the
/// following comparison reports the difference.
pub fn settle_after_error(layers_dir: &Path, model: &mut Model, names: &[&str], lname: &str, alternatives: Vec<MLayer>) {
    if compare_disk("probe", layers_dir, model, names).is_ok() {
        return;
    }
    let guess = model.layers.get(lname).cloned().unwrap_or_default();
    for alt in alternatives {
        model.layers.insert(lname.to_string(), alt);
        if compare_disk("probe", layers_dir, model, names).is_ok() {
            return;
        }
    }
    model.layers.insert(lname.to_string(), guess);
}

/// raw bytes of everything that belongs to the layers other than `except` (for "other layers untouched")
pub fn others_snapshot(layers_dir: &Path, except: &str) -> fsutil::Snapshot {
    let mut s = fsutil::snapshot(layers_dir);
    let pre = except.as_bytes();
    s.retain(|p, _| {
        let own = p == pre
            || (p.starts_with(pre) && (p.get(pre.len()) == Some(&b'/')))
            || *p == format!("{except}.toml").into_bytes()
            || SBOM_EXT.iter().any(|x| *p == format!("{except}.sbom.{x}").into_bytes())
            || p.is_empty();
        !own
    });
    s
}

// ---------------- a buildpack type for contexts ----------------

pub struct HB;

#[derive(Debug, Clone, PartialEq)]
pub struct HErr(pub String);

impl Buildpack for HB {
    type Platform = GenericPlatform;
    type Metadata = GenericMetadata;
    type Error = HErr;

    fn detect(&self, context: DetectContext<Self>) -> libcnb::Result<DetectResult, Self::Error> {
        crate::bp::detect(context)
    }
    fn build(&self, context: BuildContext<Self>) -> libcnb::Result<BuildResult, Self::Error> {
        crate::bp::build(context)
    }
    fn on_error(&self, error: libcnb::Error<Self::Error>) {
        crate::bp::on_error(error);
    }
}

pub fn make_context(root: &Path) -> BuildContext<HB> {
    let layers_dir = root.join("layers");
    let app_dir = root.join("app");
    let buildpack_dir = root.join("buildpack");
    for d in [&layers_dir, &app_dir, &buildpack_dir] {
        std::fs::create_dir_all(d).unwrap();
    }
    BuildContext {
        layers_dir,
        app_dir,
        buildpack_dir,
        target: Target { os: "linux".into(), arch: "amd64".into(), arch_variant: None, distro_name: "ubuntu".into(), distro_version: "24.04".into() },
        platform: GenericPlatform::new(Env::new()),
        buildpack_plan: BuildpackPlan { entries: vec![] },
        buildpack_descriptor: toml::from_str("api = \"0.10\"\n[buildpack]\nid = \"verif/harness\"\nversion = \"0.0.1\"\n").expect("descriptor"),
        store: None,
    }
}

pub fn exec_d_source(side_dir: &Path, name: &str, data: &[u8]) -> PathBuf {
    std::fs::create_dir_all(side_dir).unwrap();
    // one source path per program name, REWRITTEN IN PLACE for every new content (a buildpack rendering a scratch file
    // per layer): the program in an earlier layer must be a copy, not another name for this inode
    let p = side_dir.join(format!("src-{name}"));
    let mut f = std::fs::OpenOptions::new().write(true).create(true).truncate(true).open(&p).unwrap();
    std::io::Write::write_all(&mut f, data).unwrap();
    p
}
