//! The scripted buildpack behind `vbp` (HB's detect/build/on_error): behaviour comes from a JSON script
//! ($VBP_SCRIPT), every entry into detect/build/on_error appends a marker line ($VBP_MARKERS), and the context can be
//! dumped as JSON ($VBP_DUMP).

use crate::core::{bytes_to_json, json_to_bytes};
use crate::layermodel::{HB, HErr, sbom_format};
use crate::props::{c01, c02, c07, c08};
use crate::tv::TV;
use libcnb::Platform;
use libcnb::build::{BuildContext, BuildResult, BuildResultBuilder};
use libcnb::data::layer_name;
use libcnb::data::store::Store;
use libcnb::detect::{DetectContext, DetectResult, DetectResultBuilder};
use libcnb::layer::UncachedLayerDefinition;
use libcnb::sbom::Sbom;
use serde_json::{Value, json};
use std::io::Write;
use std::os::unix::ffi::OsStrExt;

fn script() -> Value {
    let p = std::env::var_os("VBP_SCRIPT").expect("VBP_SCRIPT");
    serde_json::from_str(&std::fs::read_to_string(p).expect("read script")).expect("script json")
}

/// Run one complete detect (or build, by the executable's name) of the warm-up scenario under `root` in this process and
/// put environment and working directory back. Markers and dumps are off while it runs.
pub fn warmup(root: &std::path::Path) {
    use libcnb::{BuildArgs, DetectArgs, libcnb_runtime_build, libcnb_runtime_detect};
    let is_build = std::env::args_os().next().map(|a| std::path::Path::new(&a).file_name().map(|n| n == "build").unwrap_or(false)).unwrap_or(false);
    let saved: Vec<(std::ffi::OsString, Option<std::ffi::OsString>)> = ["CNB_BUILDPACK_DIR", "CNB_TARGET_OS", "CNB_TARGET_ARCH", "CNB_TARGET_ARCH_VARIANT", "CNB_TARGET_DISTRO_NAME", "CNB_TARGET_DISTRO_VERSION", "VBP_SCRIPT", "VBP_MARKERS", "VBP_DUMP"]
        .iter()
        .map(|k| (std::ffi::OsString::from(k), std::env::var_os(k)))
        .collect();
    let cwd = std::env::current_dir().ok();
    // SAFETY: single-threaded at this point (first statement of main)
    unsafe {
        std::env::set_var("CNB_BUILDPACK_DIR", root.join("buildpack"));
        std::env::set_var("CNB_TARGET_OS", "warm-os");
        std::env::set_var("CNB_TARGET_ARCH", "warm-arch");
        std::env::set_var("CNB_TARGET_ARCH_VARIANT", "warm-variant");
        std::env::set_var("CNB_TARGET_DISTRO_NAME", "warm-distro");
        std::env::set_var("CNB_TARGET_DISTRO_VERSION", "0.0");
        std::env::set_var("VBP_SCRIPT", root.join("script.json"));
        std::env::remove_var("VBP_MARKERS");
        std::env::remove_var("VBP_DUMP");
    }
    let _ = std::env::set_current_dir(root.join("app"));
    if is_build {
        let _ = libcnb_runtime_build(&HB, BuildArgs { layers_dir_path: root.join("layers"), platform_dir_path: root.join("platform"), buildpack_plan_path: root.join("plan.toml") });
    } else {
        let _ = libcnb_runtime_detect(&HB, DetectArgs { platform_dir_path: root.join("platform"), build_plan_path: root.join("plan.toml") });
    }
    unsafe {
        for (k, v) in saved {
            match v {
                Some(v) => std::env::set_var(&k, v),
                None => std::env::remove_var(&k),
            }
        }
    }
    if let Some(c) = cwd {
        let _ = std::env::set_current_dir(c);
    }
}

pub fn marker(line: &str) {
    if let Some(p) = std::env::var_os("VBP_MARKERS") {
        if let Ok(mut f) = std::fs::OpenOptions::new().create(true).append(true).open(p) {
            let _ = writeln!(f, "{line}");
        }
    }
}

fn os_json(p: &std::ffi::OsStr) -> Value {
    bytes_to_json(p.as_bytes())
}

fn target_json(t: &libcnb::Target) -> Value {
    json!({"os": t.os, "arch": t.arch, "arch_variant": t.arch_variant, "distro_name": t.distro_name, "distro_version": t.distro_version})
}

fn env_json(e: &libcnb::Env) -> Value {
    let mut v: Vec<(Vec<u8>, Vec<u8>)> = e.iter().map(|(k, v)| (k.as_bytes().to_vec(), v.as_bytes().to_vec())).collect();
    v.sort();
    Value::Array(v.iter().map(|(k, v)| json!([bytes_to_json(k), bytes_to_json(v)])).collect())
}

fn dump(v: Value) {
    if let Some(p) = std::env::var_os("VBP_DUMP") {
        std::fs::write(p, serde_json::to_string(&v).unwrap()).expect("write dump");
    }
}

pub fn detect(context: DetectContext<HB>) -> libcnb::Result<DetectResult, HErr> {
    marker("detect");
    let s = script();
    if s["dump"] == true {
        dump(json!({
            "phase": "detect",
            "app_dir": os_json(context.app_dir.as_os_str()),
            "buildpack_dir": os_json(context.buildpack_dir.as_os_str()),
            "target": target_json(&context.target),
            "platform_env": env_json(context.platform.env()),
            "descriptor": c08::component_tv(&context.buildpack_descriptor).to_json(),
        }));
    }
    let d = &s["detect"];
    if d == "pass" {
        DetectResultBuilder::pass().build()
    } else if d == "fail" {
        DetectResultBuilder::fail().build()
    } else if d == "error" {
        Err(libcnb::Error::BuildpackError(HErr("scripted detect error".into())))
    } else {
        let ops = c07::plan_ops_from_json(&d["pass_plan"]);
        let (mut plan, _) = c07::build_plan(&ops).map_err(|f| libcnb::Error::BuildpackError(HErr(f.msg)))?;
        if s["use_app_dir"] == true {
            // an output derived from the context, as ordinary buildpacks do (C20: ambient state must not leak into it)
            let mut r = libcnb::data::build_plan::Require::new("verif-app-dir");
            r.metadata.insert("app_dir".into(), toml::Value::String(context.app_dir.to_string_lossy().into_owned()));
            plan.requires.push(r);
        }
        DetectResultBuilder::pass().build_plan(plan).build()
    }
}

pub fn build(context: BuildContext<HB>) -> libcnb::Result<BuildResult, HErr> {
    marker("build");
    let s = script();
    if s["dump"] == true {
        dump(json!({
            "phase": "build",
            "app_dir": os_json(context.app_dir.as_os_str()),
            "buildpack_dir": os_json(context.buildpack_dir.as_os_str()),
            "layers_dir": os_json(context.layers_dir.as_os_str()),
            "target": target_json(&context.target),
            "platform_env": env_json(context.platform.env()),
            "descriptor": c08::component_tv(&context.buildpack_descriptor).to_json(),
            "plan": context.buildpack_plan.entries.iter().map(|e| json!({"name": e.name, "metadata": TV::from_toml_table(&e.metadata).to_json()})).collect::<Vec<_>>(),
            "store": context.store.as_ref().map(|s| TV::from_toml_table(&s.metadata).to_json()),
        }));
    }
    let b = &s["build"];
    let side = context.layers_dir.parent().map(|p| p.join("side")).unwrap_or_else(|| std::path::PathBuf::from("/nonexistent"));
    if !b["layer_ops"].is_null() {
        let ops = c01::history_from_json(&b["layer_ops"]["history"]);
        let n = b["layer_ops"]["names"].as_u64().unwrap_or(3) as usize;
        c01::apply_ops(&context, &ops, &c01::NAMES[..n.min(5)], &side).map_err(|e| libcnb::Error::BuildpackError(HErr(e)))?;
    }
    if !b["trait_ops"].is_null() {
        let ops = c02::history_from_json(&b["trait_ops"]);
        c02::apply_ops(&context, &ops, &side).map_err(|e| libcnb::Error::BuildpackError(HErr(e)))?;
    }
    match b["kind"].as_str().unwrap_or("ok") {
        "error" => return Err(libcnb::Error::BuildpackError(HErr("scripted build error".into()))),
        "layer_error" => {
            // a real failing layer request: the harness prepared <layers>/broken with an unparsable broken.toml
            context.uncached_layer(layer_name!("broken"), UncachedLayerDefinition { build: true, launch: false })?;
        }
        _ => {}
    }
    let mut rb = BuildResultBuilder::new();
    if !b["launch"].is_null() {
        let (launch, _) = c07::build_launch(&c07::launch_ops_from_json(&b["launch"]));
        rb = rb.launch(launch);
    }
    if !b["store"].is_null() || s["use_app_dir"] == true {
        let mut metadata = if b["store"].is_null() { toml::Table::new() } else { TV::from_json(&b["store"]).to_toml_table() };
        if s["use_app_dir"] == true {
            metadata.insert("verif-app-dir".into(), toml::Value::String(context.app_dir.to_string_lossy().into_owned()));
        }
        rb = rb.store(Store { metadata });
    }
    for (key, build_side) in [("build_sboms", true), ("launch_sboms", false)] {
        if let Some(a) = b[key].as_array() {
            for sb in a {
                let s = Sbom::from_bytes(sbom_format(sb[0].as_u64().unwrap() as u8), json_to_bytes(&sb[1]));
                rb = if build_side { rb.build_sbom(s) } else { rb.launch_sbom(s) };
            }
        }
    }
    rb.build()
}

pub fn on_error(error: libcnb::Error<HErr>) {
    marker(&format!("on_error {}", format!("{error:?}").replace('\n', " ")));
}
