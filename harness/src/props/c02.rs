//! C02 — trait-based layer handling runs the right callbacks and persists their result.
#![allow(deprecated)]

use crate::core::{Check, Ctx, Fail, Scratch, bytes_to_json, hash_of, json_to_bytes};
use crate::envmodel::*;
use crate::fsutil;
use crate::layermodel::*;
use crate::props::c01::{MType, MetaT, MetaVal, V1, V2, metaval_strategy, mtype_name, mtype_strategy, replace_tv, seen_as, small_bytes};
use crate::tv::TV;
use libcnb::build::BuildContext;
use libcnb::data::layer::LayerName;
use libcnb::data::layer_content_metadata::LayerTypes;
use libcnb::generic::GenericMetadata;
use libcnb::layer::{ExistingLayerStrategy, Layer, LayerData, LayerResult, MetadataMigration};
use libcnb::sbom::Sbom;
use proptest::prelude::*;
use serde_json::{Value, json};
use std::cell::RefCell;
use std::collections::{BTreeMap, HashMap};
use std::os::unix::ffi::OsStrExt;
use std::path::{Path, PathBuf};
use std::rc::Rc;

pub const NAMES: [&str; 3] = ["tool chain", "deps", "deps.v2"];

#[derive(Clone, Debug, PartialEq)]
pub struct ResScript {
    metadata: MetaVal,
    env: Option<Vec<EnvEntry>>,
    /// update only, with `env: None`: return the env of the LayerData the callback was given (what the trait's default
    /// `update` does) — the layer's environment must then stay what it was
    inherit_env: bool,
    execd: Vec<(String, Vec<u8>)>,
    sboms: Vec<(u8, Vec<u8>)>,
    plain: Vec<(String, Vec<u8>)>,
    /// symbolic links the callback creates inside the layer (path, target)
    links: Vec<(String, String)>,
}

#[derive(Clone, Copy, Debug, PartialEq)]
pub enum Strat {
    Keep,
    Update,
    Recreate,
    Err,
}

#[derive(Clone, Debug, PartialEq)]
pub enum Mig {
    Recreate,
    Replace(MetaVal),
    Err,
}

#[derive(Clone, Debug, PartialEq)]
pub struct Script {
    types: (bool, bool, bool),
    strategy: Strat,
    migrate: Mig,
    create: Option<ResScript>, // None = Err
    update: Option<ResScript>,
}

#[derive(Clone, Debug, PartialEq)]
pub enum Op {
    Handle { name: u8, m: MType, script: Script },
    Restore,
}

#[derive(Clone, Debug, PartialEq)]
pub enum CLog {
    Create { listing: Vec<String>, path: PathBuf },
    Strategy { seen: Option<TV>, path: PathBuf },
    Update { seen: Option<TV> },
    Migrate { generic: Option<TV> },
}

fn clog_eq(a: &[CLog], b: &[CLog]) -> bool {
    let te = |x: &Option<TV>, y: &Option<TV>| meta_eq(x, y);
    // create/update are counted exactly ("exactly once when due and never otherwise"); the deciding callbacks
    // (strategy, migration) may be consulted again with the same arguments: consecutive repeats are collapsed
    let same_decider = |x: &CLog, y: &CLog| match (x, y) {
        (CLog::Strategy { seen: s1, path: p1 }, CLog::Strategy { seen: s2, path: p2 }) => p1 == p2 && te(s1, s2),
        (CLog::Migrate { generic: g1 }, CLog::Migrate { generic: g2 }) => te(g1, g2),
        _ => false,
    };
    let mut a2: Vec<&CLog> = vec![];
    for x in a {
        if a2.last().map(|l| same_decider(l, x)) != Some(true) {
            a2.push(x);
        }
    }
    let a = a2;
    a.len() == b.len()
        && a.iter().zip(b).all(|(x, y)| match (*x, y) {
            (CLog::Create { listing: l1, path: p1 }, CLog::Create { listing: l2, path: p2 }) => l1 == l2 && p1 == p2,
            (CLog::Strategy { seen: s1, path: p1 }, CLog::Strategy { seen: s2, path: p2 }) => p1 == p2 && te(s1, s2),
            (CLog::Update { seen: s1 }, CLog::Update { seen: s2 }) => te(s1, s2),
            (CLog::Migrate { generic: g1 }, CLog::Migrate { generic: g2 }) => te(g1, g2),
            _ => false,
        })
}

struct Scripted<M: MetaT> {
    script: Script,
    log: Rc<RefCell<Vec<CLog>>>,
    side: PathBuf,
    _m: std::marker::PhantomData<M>,
}

impl<M: MetaT> Scripted<M> {
    fn result(&self, rs: &ResScript, layer_path: &Path, prior: Option<&libcnb::layer_env::LayerEnv>) -> LayerResult<M> {
        for (p, d) in &rs.plain {
            let f = layer_path.join(p);
            std::fs::create_dir_all(f.parent().unwrap()).unwrap();
            std::fs::write(f, d).unwrap();
        }
        for (p, t) in &rs.links {
            let f = layer_path.join(p);
            std::fs::create_dir_all(f.parent().unwrap()).unwrap();
            let _ = std::fs::remove_file(&f);
            std::os::unix::fs::symlink(t, f).unwrap();
        }
        let execd: BTreeMap<String, Vec<u8>> = rs.execd.iter().cloned().collect();
        let sboms: BTreeMap<u8, Vec<u8>> = rs.sboms.iter().cloned().collect();
        LayerResult {
            metadata: M::from_val(&rs.metadata),
            env: match (rs.inherit_env && rs.env.is_none(), prior) {
                (true, Some(p)) => Some(p.clone()),
                _ => rs.env.as_ref().map(|e| to_layer_env(e)),
            },
            exec_d_programs: execd.iter().map(|(n, d)| (n.clone(), exec_d_source(&self.side, n, d))).collect::<HashMap<_, _>>(),
            sboms: sboms.iter().map(|(f, d)| Sbom::from_bytes(sbom_format(*f), d.clone())).collect(),
        }
    }
}

impl<M: MetaT> Layer for Scripted<M> {
    type Buildpack = HB;
    type Metadata = M;

    fn types(&self) -> LayerTypes {
        LayerTypes { build: self.script.types.0, launch: self.script.types.1, cache: self.script.types.2 }
    }

    fn create(&mut self, _context: &BuildContext<HB>, layer_path: &Path) -> Result<LayerResult<M>, HErr> {
        let mut listing: Vec<String> = std::fs::read_dir(layer_path).map(|rd| rd.flatten().map(|e| e.file_name().to_string_lossy().to_string()).collect()).unwrap_or_else(|_| vec!["<layer_path is not a directory>".to_string()]);
        listing.sort();
        self.log.borrow_mut().push(CLog::Create { listing, path: layer_path.to_path_buf() });
        match &self.script.create {
            None => Err(HErr("scripted".into())),
            Some(rs) => Ok(self.result(rs, layer_path, None)),
        }
    }

    fn existing_layer_strategy(&mut self, _context: &BuildContext<HB>, layer_data: &LayerData<M>) -> Result<ExistingLayerStrategy, HErr> {
        self.log.borrow_mut().push(CLog::Strategy { seen: layer_data.content_metadata.metadata.to_seen(), path: layer_data.path.clone() });
        match self.script.strategy {
            Strat::Keep => Ok(ExistingLayerStrategy::Keep),
            Strat::Update => Ok(ExistingLayerStrategy::Update),
            Strat::Recreate => Ok(ExistingLayerStrategy::Recreate),
            Strat::Err => Err(HErr("scripted".into())),
        }
    }

    fn update(&mut self, _context: &BuildContext<HB>, layer_data: &LayerData<M>) -> Result<LayerResult<M>, HErr> {
        self.log.borrow_mut().push(CLog::Update { seen: layer_data.content_metadata.metadata.to_seen() });
        match &self.script.update {
            None => Err(HErr("scripted".into())),
            Some(rs) => Ok(self.result(rs, &layer_data.path, Some(&layer_data.env))),
        }
    }

    fn migrate_incompatible_metadata(&mut self, _context: &BuildContext<HB>, metadata: &GenericMetadata) -> Result<MetadataMigration<M>, HErr> {
        self.log.borrow_mut().push(CLog::Migrate { generic: metadata.as_ref().map(TV::from_toml_table) });
        match &self.script.migrate {
            Mig::Recreate => Ok(MetadataMigration::RecreateLayer),
            Mig::Replace(v) => Ok(MetadataMigration::ReplaceMetadata(M::from_val(v))),
            Mig::Err => Err(HErr("scripted".into())),
        }
    }
}

/// What the returned LayerData says, in harness terms
struct Returned {
    name: String,
    path: PathBuf,
    types: Option<(bool, bool, bool)>,
    metadata: Option<TV>,
    env: libcnb::layer_env::LayerEnv,
}

fn run_handle<M: MetaT>(bc: &BuildContext<HB>, name: &LayerName, script: &Script, side: &Path, log: Rc<RefCell<Vec<CLog>>>) -> Result<Returned, String> {
    let layer = Scripted::<M> { script: script.clone(), log, side: side.to_path_buf(), _m: std::marker::PhantomData };
    match bc.handle_layer(name.clone(), layer) {
        Ok(ld) => Ok(Returned {
            name: ld.name.to_string(),
            path: ld.path.clone(),
            types: ld.content_metadata.types.map(|t| (t.build, t.launch, t.cache)),
            metadata: ld.content_metadata.metadata.to_seen(),
            env: ld.env.clone(),
        }),
        Err(libcnb::Error::BuildpackError(e)) => Err(format!("buildpack-error:{}", e.0)),
        Err(e) => Err(format!("other-error:{e:?}")),
    }
}

// ---------------- model ----------------

fn apply_result(l: &mut MLayer, m: MType, rs: &ResScript, types: (bool, bool, bool), is_update: bool) {
    l.dir = true;
    l.toml = Some(MToml { types: Some(types), metadata: Some(replace_tv(m, &rs.metadata)) });
    if !(is_update && rs.inherit_env && rs.env.is_none()) {
        l.set_env(rs.env.as_deref().unwrap_or(&[]));
    }
    l.execd = rs.execd.iter().cloned().collect();
    l.sboms = rs.sboms.iter().cloned().collect();
    for (p, d) in &rs.plain {
        l.plain.insert(p.clone(), d.clone());
    }
    for (p, t) in &rs.links {
        l.links.insert(p.clone(), t.clone());
    }
}

/// returns (Ok(()) | Err(()), expected callback log)
fn model_handle(l: &mut MLayer, path: &Path, m: MType, s: &Script) -> (Result<(), ()>, Vec<CLog>) {
    let mut log = vec![];
    if l.dir && l.toml.is_none() {
        // a directory without content metadata reads as an empty metadata file
        l.toml = Some(MToml { types: None, metadata: None });
    }
    if l.dir {
        let stored = l.toml.as_ref().and_then(|t| t.metadata.clone());
        let mut seen = seen_as(m, &stored);
        let mut recreate = false;
        if seen.is_none() {
            log.push(CLog::Migrate { generic: stored.clone() });
            match &s.migrate {
                Mig::Err => return (Err(()), log),
                Mig::Recreate => recreate = true,
                Mig::Replace(v) => {
                    let tv = replace_tv(m, v);
                    l.toml.as_mut().unwrap().metadata = Some(tv.clone());
                    seen = seen_as(m, &Some(tv));
                    assert!(seen.is_some());
                }
            }
        }
        if !recreate {
            log.push(CLog::Strategy { seen: seen.clone().unwrap(), path: path.to_path_buf() });
            match s.strategy {
                Strat::Err => return (Err(()), log),
                Strat::Keep => {
                    l.toml.as_mut().unwrap().types = Some(s.types);
                    return (Ok(()), log);
                }
                Strat::Update => {
                    log.push(CLog::Update { seen: seen.unwrap() });
                    return match &s.update {
                        None => (Err(()), log),
                        Some(rs) => {
                            apply_result(l, m, rs, s.types, true);
                            (Ok(()), log)
                        }
                    };
                }
                Strat::Recreate => {}
            }
        }
        *l = MLayer::default();
    } else {
        // content metadata without a directory is normalised away
        *l = MLayer::default();
    }
    // create from an empty directory
    l.dir = true;
    log.push(CLog::Create { listing: vec![], path: path.to_path_buf() });
    match &s.create {
        None => (Err(()), log),
        Some(rs) => {
            apply_result(l, m, rs, s.types, false);
            (Ok(()), log)
        }
    }
}

pub fn implicit_of(l: &MLayer, layer_path: &Path) -> Vec<Implicit> {
    let has = |d: &str| l.plain.keys().chain(l.links.keys()).any(|p| p.starts_with(&format!("{d}/")));
    let p = |d: &str| layer_path.join(d).as_os_str().as_bytes().to_vec();
    let mut v = vec![];
    if has("bin") {
        v.push((Sc::Build, "PATH", p("bin")));
        v.push((Sc::Launch, "PATH", p("bin")));
    }
    if has("lib") {
        v.push((Sc::Build, "LD_LIBRARY_PATH", p("lib")));
        v.push((Sc::Build, "LIBRARY_PATH", p("lib")));
        v.push((Sc::Launch, "LD_LIBRARY_PATH", p("lib")));
    }
    if has("include") {
        v.push((Sc::Build, "CPATH", p("include")));
    }
    if has("pkgconfig") {
        v.push((Sc::Build, "PKG_CONFIG_PATH", p("pkgconfig")));
    }
    v
}

pub struct HistOutcome {
    pub steps: usize,
    pub nontrivial: bool,
    pub classes: Vec<&'static str>,
    pub fail: Option<Fail>,
}

pub fn run_history(scratch: &Path, h: &[Op]) -> HistOutcome {
    let root = scratch.join(format!("h-{:016x}", hash_of(&history_json(h).to_string())));
    let _ = fsutil::force_remove(&root);
    let bc = make_context(&root);
    let side = root.join("side");
    let mut model = Model::default();
    for n in NAMES {
        model.layer(n);
    }
    let mut out = HistOutcome { steps: 0, nontrivial: false, classes: vec![], fail: None };
    let mut handled_before_restore: std::collections::BTreeSet<u8> = Default::default();
    let mut handled_this_build: std::collections::BTreeSet<u8> = Default::default();
    let mut rich = false;
    let r = (|| -> Check {
        for (step, op) in h.iter().enumerate() {
            out.steps += 1;
            let ctxmsg = |f: Fail| Fail::new(f.sig.clone(), format!("step {step} ({}): {}", op_json(op), f.msg));
            match op {
                Op::Restore => {
                    out.classes.push("restore");
                    model.restore();
                    restore_on_disk(&bc.layers_dir, &model);
                    handled_before_restore.append(&mut handled_this_build);
                    compare_disk("harness", &bc.layers_dir, &model, &NAMES).map_err(|f| Fail::new("harness:restore-model-mismatch", f.msg))?;
                }
                Op::Handle { name, m, script } => {
                    let key = *name % NAMES.len() as u8;
                    let lname = NAMES[key as usize];
                    let ln: LayerName = lname.parse().unwrap();
                    let lpath = bc.layers_dir.join(lname);
                    if handled_before_restore.contains(&key) {
                        out.classes.push("handle:same-name-after-restore");
                        if rich {
                            out.nontrivial = true;
                        }
                    }
                    handled_this_build.insert(key);
                    let others_before = others_snapshot(&bc.layers_dir, lname);
                    let log = Rc::new(RefCell::new(vec![]));
                    let got = match m {
                        MType::Generic => run_handle::<GenericMetadata>(&bc, &ln, script, &side, log.clone()),
                        MType::V1 => run_handle::<V1>(&bc, &ln, script, &side, log.clone()),
                        MType::V2 => run_handle::<V2>(&bc, &ln, script, &side, log.clone()),
                        MType::Opt => run_handle::<crate::props::c01::Opt>(&bc, &ln, script, &side, log.clone()),
                    };
                    let own_before = model.layer(lname).clone();
                    let (want, want_log) = model_handle(model.layer(lname), &lpath, *m, script);
                    let got_log = log.borrow().clone();
                    // callbacks: which, exactly once, in order, with the right arguments
                    if !clog_eq(&got_log, &want_log) {
                        let sig = if got_log.len() != want_log.len() || got_log.iter().zip(&want_log).any(|(a, b)| std::mem::discriminant(a) != std::mem::discriminant(b)) { "C02:wrong-callbacks-invoked" } else { "C02:callback-arguments-differ" };
                        return Err(ctxmsg(Fail::new(sig, format!("layer {lname:?}: invoked {got_log:?}, expected {want_log:?}"))));
                    }
                    for l in &want_log {
                        out.classes.push(match l {
                            CLog::Create { .. } => "callback:create",
                            CLog::Strategy { .. } => "callback:existing_layer_strategy",
                            CLog::Update { .. } => "callback:update",
                            CLog::Migrate { .. } => "callback:migrate_incompatible_metadata",
                        });
                    }
                    match (&got, &want) {
                        (Ok(_), Ok(())) => {}
                        (Err(e), Err(())) => {
                            ensure!(e.starts_with("buildpack-error:scripted"), "C02:wrong-error-kind", "step {step}: callback returned Err, handle_layer returned {e}");
                            out.classes.push("handle:callback-error");
                        }
                        (Ok(_), Err(())) => return Err(ctxmsg(Fail::new("C02:callback-error-swallowed", "callback returned Err but handle_layer succeeded"))),
                        (Err(e), Ok(())) => {
                            let sig = if e.contains("Is a directory") { "C02:process-env-unreadable" } else { "C02:handle-layer-failed" };
                            return Err(ctxmsg(Fail::new(sig, e.clone())));
                        }
                    }
                    // disk == model (after a callback Err: the model's guess, the state before the call, or no layer at all)
                    if matches!((&got, &want), (Err(_), Err(()))) {
                        settle_after_error(&bc.layers_dir, &mut model, &NAMES, lname, vec![own_before.clone(), MLayer::default()]);
                    }
                    compare_disk("C02", &bc.layers_dir, &model, &NAMES).map_err(&ctxmsg)?;
                    let others_after = others_snapshot(&bc.layers_dir, lname);
                    let d = fsutil::diff(&others_before, &others_after, 4);
                    if !d.is_empty() {
                        return Err(ctxmsg(Fail::new("C02:other-layer-touched", format!("{d:?}"))));
                    }
                    // returned layer data == disk (through the model)
                    if let Ok(ret) = &got {
                        let l = model.layers.get(lname).unwrap();
                        ensure!(ret.name == lname && ret.path == lpath, "C02:returned-name-or-path", "step {step}: returned {:?} {:?}", ret.name, ret.path);
                        let mt = l.toml.as_ref().unwrap();
                        ensure!(types_eq(&ret.types, &mt.types), "C02:returned-types-differ", "step {step}: returned types {:?}, on disk {:?}", ret.types, mt.types);
                        let want_seen = seen_as(*m, &mt.metadata).unwrap_or(None);
                        let same = meta_eq(&ret.metadata, &want_seen);
                        ensure!(same, "C02:returned-metadata-differs", "step {step}: returned metadata {:?}, on disk {:?}", ret.metadata, want_seen);
                        let implicit = implicit_of(l, &lpath);
                        let mut queries = vec![Sc::All, Sc::Build, Sc::Launch, Sc::Process("unknown-proc".into())];
                        for e in &l.env {
                            if matches!(e.scope, Sc::Process(_)) && !queries.contains(&e.scope) {
                                queries.push(e.scope.clone());
                            }
                        }
                        let mut e1 = EnvMap::new();
                        e1.insert(b"PATH".to_vec(), b"/usr/bin".to_vec());
                        e1.insert(b"A".to_vec(), vec![]);
                        let mut e2 = EnvMap::new();
                        for e in &l.env {
                            e2.insert(e.name.clone(), b"prev".to_vec());
                        }
                        for q in &queries {
                            for e0 in [&EnvMap::new(), &e1, &e2] {
                                let gotenv = from_env(&ret.env.apply(q.to_libcnb(), &to_env(e0)));
                                let wantenv = ref_apply(&l.env, &implicit, q, e0);
                                if gotenv != wantenv {
                                    let sig = if matches!(q, Sc::Process(_)) { "C02:returned-env-differs:process" } else { "C02:returned-env-differs" };
                                    return Err(ctxmsg(Fail::new(sig, format!("scope {q:?}: returned env applies to {}, disk says {}", envmap_to_json(&gotenv), envmap_to_json(&wantenv)))));
                                }
                            }
                        }
                        if l.env.iter().any(|e| matches!(e.scope, Sc::Process(_))) || !l.sboms.is_empty() || !l.execd.is_empty() {
                            rich = true;
                        }
                    }
                }
            }
        }
        Ok(())
    })();
    out.fail = r.err();
    let _ = fsutil::force_remove(&root);
    out
}

// ---------------- JSON ----------------

fn res_json(r: &Option<ResScript>) -> Value {
    match r {
        None => json!(null),
        Some(r) => json!({"metadata": r.metadata.to_json(), "env": r.env.as_ref().map(|e| entries_to_json(e)), "inherit_env": r.inherit_env,
            "execd": r.execd.iter().map(|(n, d)| json!([n, bytes_to_json(d)])).collect::<Vec<_>>(),
            "sboms": r.sboms.iter().map(|(f, d)| json!([f, bytes_to_json(d)])).collect::<Vec<_>>(),
            "plain": r.plain.iter().map(|(n, d)| json!([n, bytes_to_json(d)])).collect::<Vec<_>>(),
            "links": r.links.iter().map(|(n, t)| json!([n, t])).collect::<Vec<_>>()}),
    }
}
fn res_from_json(v: &Value) -> Option<ResScript> {
    if v.is_null() {
        return None;
    }
    let nb = |x: &Value| -> Vec<(String, Vec<u8>)> { x.as_array().unwrap().iter().map(|p| (p[0].as_str().unwrap().to_string(), json_to_bytes(&p[1]))).collect() };
    Some(ResScript {
        metadata: MetaVal::from_json(&v["metadata"]),
        env: if v["env"].is_null() { None } else { Some(entries_from_json(&v["env"])) },
        inherit_env: v["inherit_env"].as_bool().unwrap_or(false),
        execd: nb(&v["execd"]),
        sboms: v["sboms"].as_array().unwrap().iter().map(|p| (p[0].as_u64().unwrap() as u8, json_to_bytes(&p[1]))).collect(),
        plain: nb(&v["plain"]),
        links: v["links"].as_array().map(|a| a.iter().map(|p| (p[0].as_str().unwrap().to_string(), p[1].as_str().unwrap().to_string())).collect()).unwrap_or_default(),
    })
}

fn op_json(o: &Op) -> Value {
    match o {
        Op::Restore => json!("restore"),
        Op::Handle { name, m, script: s } => json!({"handle": {"name": name, "m": mtype_name(*m), "types": [s.types.0, s.types.1, s.types.2],
            "strategy": format!("{:?}", s.strategy),
            "migrate": match &s.migrate { Mig::Recreate => json!("recreate"), Mig::Err => json!("err"), Mig::Replace(v) => json!({"replace": v.to_json()}) },
            "create": res_json(&s.create), "update": res_json(&s.update)}}),
    }
}

fn op_from_json(v: &Value) -> Op {
    if v == "restore" {
        return Op::Restore;
    }
    let x = &v["handle"];
    Op::Handle {
        name: x["name"].as_u64().unwrap() as u8,
        m: match x["m"].as_str().unwrap() { "generic" => MType::Generic, "v1" => MType::V1, _ => MType::V2 },
        script: Script {
            types: (x["types"][0].as_bool().unwrap(), x["types"][1].as_bool().unwrap(), x["types"][2].as_bool().unwrap()),
            strategy: match x["strategy"].as_str().unwrap() { "Keep" => Strat::Keep, "Update" => Strat::Update, "Recreate" => Strat::Recreate, _ => Strat::Err },
            migrate: if x["migrate"] == "recreate" { Mig::Recreate } else if x["migrate"] == "err" { Mig::Err } else { Mig::Replace(MetaVal::from_json(&x["migrate"]["replace"])) },
            create: res_from_json(&x["create"]),
            update: res_from_json(&x["update"]),
        },
    }
}

pub fn history_json(h: &[Op]) -> Value {
    Value::Array(h.iter().map(op_json).collect())
}

// ---------------- generators ----------------

fn res_strategy() -> impl Strategy<Value = Option<ResScript>> {
    let r = (
        metaval_strategy(),
        proptest::option::weighted(0.75, proptest::collection::vec(crate::props::c03::entry_strategy(), 0..5)),
        proptest::collection::vec((prop_oneof![Just("a".to_string()), Just("prog two".to_string()), Just("z.sh".to_string())], small_bytes()), 0..4),
        proptest::collection::vec((0u8..3, small_bytes()), 0..4),
        proptest::collection::vec((prop_oneof![Just("file.txt".to_string()), Just("bin/tool".to_string()), Just("lib/libx.so".to_string()), Just("include/x.h".to_string()), Just("pkgconfig/x.pc".to_string()), Just("data/n/deep".to_string())], small_bytes()), 0..3),
        any::<bool>(),
    )
        .prop_map(|(metadata, env, execd, sboms, plain, inherit)| {
            let inherit_env = inherit && env.is_none();
            // one result in five also leaves a symbolic link (dangling or not) in the layer
            let links = if (plain.len() + execd.len() + sboms.len()) % 5 == 1 { vec![("current".to_string(), if execd.is_empty() { "does/not/exist".to_string() } else { "file.txt".to_string() })] } else { vec![] };
            ResScript { metadata, env, inherit_env, execd, sboms, plain, links }
        });
    proptest::option::weighted(0.9, r)
}

fn script_strategy() -> impl Strategy<Value = Script> {
    (
        (any::<bool>(), any::<bool>(), proptest::bool::weighted(0.8)),
        prop_oneof![4 => Just(Strat::Keep), 3 => Just(Strat::Update), 2 => Just(Strat::Recreate), 1 => Just(Strat::Err)],
        prop_oneof![3 => Just(Mig::Recreate), 4 => metaval_strategy().prop_map(Mig::Replace), 1 => Just(Mig::Err)],
        res_strategy(),
        res_strategy(),
    )
        .prop_map(|(types, strategy, migrate, create, update)| Script { types, strategy, migrate, create, update })
}

fn history_strategy(max_builds: usize) -> impl Strategy<Value = Vec<Op>> {
    let handle = (0u8..NAMES.len() as u8, mtype_strategy(), script_strategy()).prop_map(|(name, m, script)| Op::Handle { name, m, script });
    let build = proptest::collection::vec(handle, 1..4);
    (proptest::collection::vec(build, 1..max_builds), any::<u64>()).prop_map(|(builds, salt)| {
        let mut h = vec![];
        for (i, b) in builds.into_iter().enumerate() {
            if i > 0 {
                h.push(Op::Restore);
            }
            h.extend(b);
        }
        // neighbour results: every other update returns the env the layer (approximately) has, with one process type or
        // one scope removed and everything else unchanged
        let mut last_env: BTreeMap<u8, Vec<EnvEntry>> = BTreeMap::new();
        for (k, op) in h.iter_mut().enumerate() {
            if let Op::Handle { name, script, .. } = op {
                let key = *name % NAMES.len() as u8;
                if let (Some(prev), Some(upd)) = (last_env.get(&key), script.update.as_mut()) {
                    if (salt >> (k % 60)) & 1 == 1 && !prev.is_empty() {
                        let victim = prev[(salt as usize + k) % prev.len()].scope.clone();
                        upd.env = Some(prev.iter().filter(|e| e.scope != victim).cloned().collect());
                    }
                }
                let written = match script.strategy {
                    Strat::Update => script.update.as_ref().or(script.create.as_ref()),
                    Strat::Keep => None,
                    _ => script.create.as_ref(),
                };
                if let Some(w) = written {
                    last_env.insert(key, w.env.clone().unwrap_or_default());
                }
            }
        }
        h
    })
}

/// reduced alphabet of handle_layer calls on one layer for the bounded-exhaustive sub-run
fn reduced_alphabet() -> Vec<Op> {
    let rich = ResScript {
        metadata: MetaVal::V2("1.0".into(), 7),
        env: Some(vec![
            EnvEntry { scope: Sc::Process("web".into()), beh: Beh::Append, name: b"A.B".to_vec(), value: b"v".to_vec() },
            EnvEntry { scope: Sc::Launch, beh: Beh::Default, name: b"X".to_vec(), value: vec![] },
        ]),
        inherit_env: false,
        execd: vec![("p".into(), b"#!".to_vec())],
        sboms: vec![(2, b"{}".to_vec())],
        plain: vec![("bin/tool".into(), b"x".to_vec())],
        links: vec![("current".into(), "does/not/exist".into())],
    };
    let plain = ResScript { metadata: MetaVal::Generic(TV::table(vec![("other", TV::Int(1))])), env: None, inherit_env: true, execd: vec![], sboms: vec![], plain: vec![("file.txt".into(), b"y".to_vec())], links: vec![] };
    let mut ops = vec![];
    for m in [MType::V1, MType::V2] {
        for strategy in [Strat::Keep, Strat::Update, Strat::Recreate, Strat::Err] {
            for migrate in [Mig::Recreate, Mig::Replace(MetaVal::V2("migrated".into(), 1)), Mig::Err] {
                for (create, update) in [(Some(rich.clone()), Some(plain.clone())), (Some(plain.clone()), Some(rich.clone())), (None, None)] {
                    ops.push(Op::Handle { name: 1, m, script: Script { types: (true, m == MType::V1, true), strategy, migrate: migrate.clone(), create, update } });
                }
            }
        }
    }
    ops
}

pub fn run(ctx: &Ctx) {
    ctx.set_rule("bounded-exhaustive: every history [h], [h, h2], [h, restore, h2] over a reduced alphabet of 72 scripted handle_layer calls on one layer (metadata type V1/V2 x strategy keep/update/recreate/error x migrate recreate/replace/error x create+update results rich/plain/error) = 10 440 histories; sampled: histories of handle_layer calls over 3 layer names interleaved with simulated lifecycle restores; the Layer implementation is fully scripted per call: types (8 flag combinations), metadata type {generic, V1, V2, Opt — all fields optional} (alternating types reach the migration path after restores), existing_layer_strategy in {keep, update, recreate, error}, migrate_incompatible_metadata in {recreate, replace with a valid value, error}, create/update returning metadata, env None | the env of the LayerData handed to update (the trait's default update) | Some(entries over all/build/launch/process with byte-string names), 0..3 exec.d programs, 0..3 SBOMs, plain files written into the layer path (also bin/ lib/ include/ pkgconfig/), or an error. Oracle after EVERY call: callback log (create/update exactly once when due and never otherwise; strategy/migration with the right arguments, consecutive identical repeats collapsed; create on an empty directory) == model; Err iff a callback returned Err (the layer may then be as before, as far as the model got, or absent); disk == model (files bytewise via an independent env renderer, content metadata via Python tomllib, SBOMs); other layers byte-identical; returned LayerData (name, path, types, metadata, env applied for all scopes incl. per-process and unknown process to 3 starting envs, incl. implicit layer paths) == disk. Non-trivial: >= 2 handle_layer calls on the same name separated by a restore, with a layer result that carried a per-process env entry, an SBOM or an exec.d program; distinct = hash of the operation list.");
    ctx.set_exhaustive(true);
    ctx.extra("exhaustive_subspace", json!("histories of length <= 2 (+ a restore in between) over the reduced alphabet; longer histories are sampled"));
    ctx.assume("callbacks obey the trait's documented contract (write only below layer_path, types() pure); the lifecycle is the abstraction of C01's quantifier");
    let scratch = Scratch::new("c02");
    for (_p, v) in ctx.regress_files() {
        replay(ctx, "", &v["case"]);
    }
    // bounded exhaustive: every [h], [h, h'], [h, restore, h'] over the reduced alphabet (72 calls) on one layer
    let alpha = reduced_alphabet();
    let mut hs: Vec<Vec<Op>> = vec![];
    for a in &alpha {
        hs.push(vec![a.clone()]);
        for b in &alpha {
            hs.push(vec![a.clone(), b.clone()]);
            hs.push(vec![a.clone(), Op::Restore, b.clone()]);
        }
    }
    ctx.class_n("exhaustive:histories", hs.len() as u64);
    let chunks: Vec<&[Vec<Op>]> = hs.chunks(hs.len().div_ceil(crate::core::ncpu())).collect();
    let outs: Vec<Vec<crate::histworker::Outcome>> = crate::core::par_map(&chunks, crate::core::ncpu(), |chunk| {
        let mut w = crate::histworker::HistWorker::new("c02", 3, &scratch.path);
        chunk.iter().map(|h| w.run(&history_json(h))).collect()
    });
    let flat: Vec<(&Vec<Op>, crate::histworker::Outcome)> = chunks.iter().flat_map(|c| c.iter()).zip(outs.into_iter().flatten()).collect();
    for (h, o) in flat {
        ctx.eval();
        ctx.extra_add("steps_executed", o.steps as u64);
        for c in &o.classes {
            ctx.class(c);
        }
        if o.nontrivial {
            ctx.nontrivial(hash_of(&history_json(h).to_string()));
        }
        if let Some(f) = o.fail {
            if !ctx.check_case("exhaustive", Err(f), || history_json(h)) {
                break;
            }
        }
    }
    let thorough = ctx.tier == crate::core::Tier::Thorough;
    let worker = RefCell::new(crate::histworker::HistWorker::new("c02", 3, &scratch.path));
    ctx.run_prop("histories", history_strategy(if thorough { 9 } else { 5 }), ctx.tier.pick(1500, 30_000), |h| history_json(h), |h| {
        let o = worker.borrow_mut().run(&history_json(h));
        ctx.eval();
        ctx.extra_add("steps_executed", o.steps as u64);
        for c in &o.classes {
            ctx.class(c);
        }
        if o.nontrivial {
            ctx.class("history:nontrivial");
            ctx.nontrivial(hash_of(&history_json(h).to_string()));
            if (ctx.samples_len() < 2 || hash_of(&history_json(h).to_string()) % 151 == 0) {
                ctx.sample(4, || history_json(h));
            }
        }
        match o.fail {
            None => Ok(()),
            Some(f) => Err(f),
        }
    });
}

pub fn replay(ctx: &Ctx, _sub: &str, case: &Value) {
    let scratch = Scratch::new("c02r");
    let o = crate::histworker::HistWorker::new("c02", 3, &scratch.path).run(case);
    ctx.eval();
    if let Some(f) = o.fail {
        ctx.check_case("replay", Err(f), || case.clone());
    }
}

/// Run handle_layer scripts (restores ignored) against a given context without a model — used by the scripted buildpack (C20).
pub fn apply_ops(bc: &BuildContext<HB>, ops: &[Op], side: &Path) -> Result<(), String> {
    apply_ops_named(bc, ops, side, &NAMES)
}

pub fn apply_ops_named(bc: &BuildContext<HB>, ops: &[Op], side: &Path, names: &[&str]) -> Result<(), String> {
    for op in ops {
        if let Op::Handle { name, m, script } = op {
            let ln: LayerName = names[(*name as usize) % names.len()].parse().unwrap();
            let log = Rc::new(RefCell::new(vec![]));
            let r = match m {
                MType::Generic => run_handle::<GenericMetadata>(bc, &ln, script, side, log),
                MType::V1 => run_handle::<V1>(bc, &ln, script, side, log),
                MType::V2 => run_handle::<V2>(bc, &ln, script, side, log),
                MType::Opt => run_handle::<crate::props::c01::Opt>(bc, &ln, script, side, log),
            };
            if let Err(e) = r {
                if !e.starts_with("buildpack-error") {
                    return Err(e);
                }
            }
        }
    }
    Ok(())
}

pub fn history_strategy_for_bp() -> impl Strategy<Value = Vec<Op>> {
    history_strategy(2)
}

pub fn history_from_json(v: &Value) -> Vec<Op> {
    v.as_array().unwrap().iter().map(op_from_json).collect()
}

/// handle_layer on an existing layer with strategy Update whose update returns the env it was handed (the trait's
/// default update): the layer's environment on disk must survive unchanged
pub fn inheriting_update_op(name: u8, types: (bool, bool, bool)) -> Op {
    let res = ResScript { metadata: MetaVal::Generic(TV::table(vec![("k", TV::Int(1))])), env: None, inherit_env: true, execd: vec![], sboms: vec![], plain: vec![], links: vec![] };
    Op::Handle { name, m: MType::Generic, script: Script { types, strategy: Strat::Update, migrate: Mig::Recreate, create: Some(res.clone()), update: Some(res) } }
}

/// one handle_layer call whose callbacks never return Err
pub fn errorless_handle_strategy(nnames: u8) -> impl Strategy<Value = Op> {
    (0..nnames, mtype_strategy(), script_strategy()).prop_map(|(name, m, mut script)| {
        if script.strategy == Strat::Err {
            script.strategy = Strat::Update;
        }
        if script.migrate == Mig::Err {
            script.migrate = Mig::Recreate;
        }
        let fallback = ResScript { metadata: MetaVal::V1("fallback".into()), env: None, inherit_env: false, execd: vec![], sboms: vec![], plain: vec![], links: vec![] };
        if script.create.is_none() {
            script.create = Some(fallback.clone());
        }
        if script.update.is_none() {
            script.update = Some(fallback);
        }
        Op::Handle { name, m, script }
    })
}
