//! C17 — libcnb-test passes configuration to pack and docker completely, unambiguously.

use crate::core::{Check, Ctx, Fail, Scratch, hash_of};
use crate::trrun::{self, argv};
use proptest::prelude::*;
use serde_json::{Value, json};
use std::collections::{BTreeMap, BTreeSet};
use std::path::Path;

// ---------------------------------------------------------------------------------------------
// reference parser for spf13/pflag style command lines (the grammar docker and pack use)
// ---------------------------------------------------------------------------------------------

#[derive(Clone, Copy, PartialEq)]
enum FK {
    Bool,
    Val,
}

struct Spec {
    /// (long name, short, kind)
    flags: &'static [(&'static str, Option<char>, FK)],
    interspersed: bool,
}

#[derive(Debug, Default)]
struct Parsed {
    flags: Vec<(String, Option<String>)>,
    /// the argv token each flag was recognised in (parallel to `flags`)
    raw: Vec<String>,
    positionals: Vec<String>,
}

fn pflag_parse(args: &[String], spec: &Spec) -> Result<Parsed, String> {
    let mut out = Parsed::default();
    let mut i = 0;
    let long = |n: &str| spec.flags.iter().find(|f| f.0 == n);
    let short = |c: char| spec.flags.iter().find(|f| f.1 == Some(c));
    while i < args.len() {
        let a = &args[i];
        i += 1;
        if a == "--" {
            out.positionals.extend(args[i..].iter().cloned());
            break;
        }
        if let Some(rest) = a.strip_prefix("--") {
            let (name, inline) = match rest.split_once('=') {
                Some((n, v)) => (n, Some(v.to_string())),
                None => (rest, None),
            };
            let f = long(name).ok_or_else(|| format!("unknown flag: --{name}"))?;
            match (f.2, inline) {
                (FK::Bool, None) => out.flags.push((f.0.to_string(), None)),
                (FK::Bool, Some(v)) => out.flags.push((f.0.to_string(), Some(v))),
                (FK::Val, Some(v)) => out.flags.push((f.0.to_string(), Some(v))),
                (FK::Val, None) => {
                    let v = args.get(i).ok_or_else(|| format!("flag needs an argument: --{name}"))?;
                    i += 1;
                    out.flags.push((f.0.to_string(), Some(v.clone())));
                }
            }
            out.raw.push(a.clone());
        } else if a.len() >= 2 && a.starts_with('-') {
            let chars: Vec<char> = a[1..].chars().collect();
            let mut k = 0;
            while k < chars.len() {
                let f = short(chars[k]).ok_or_else(|| format!("unknown shorthand flag: {:?} in {a}", chars[k]))?;
                k += 1;
                if f.2 == FK::Bool {
                    out.flags.push((f.0.to_string(), None));
                    out.raw.push(a.clone());
                } else {
                    out.raw.push(a.clone());
                    let rest: String = chars[k..].iter().collect();
                    if !rest.is_empty() {
                        out.flags.push((f.0.to_string(), Some(rest.strip_prefix('=').unwrap_or(&rest).to_string())));
                    } else {
                        let v = args.get(i).ok_or_else(|| format!("flag needs an argument: -{}", chars[k - 1]))?;
                        i += 1;
                        out.flags.push((f.0.to_string(), Some(v.clone())));
                    }
                    break;
                }
            }
        } else {
            out.positionals.push(a.clone());
            if !spec.interspersed {
                out.positionals.extend(args[i..].iter().cloned());
                break;
            }
        }
    }
    Ok(out)
}

const PACK_BUILD: Spec = Spec {
    interspersed: true,
    flags: &[
        ("builder", Some('B'), FK::Val), ("path", Some('p'), FK::Val), ("pull-policy", None, FK::Val), ("cache", None, FK::Val), ("buildpack", Some('b'), FK::Val), ("env", Some('e'), FK::Val),
        ("env-file", None, FK::Val), ("descriptor", Some('d'), FK::Val), ("network", None, FK::Val), ("volume", None, FK::Val), ("tag", Some('t'), FK::Val), ("run-image", None, FK::Val),
        ("cache-image", None, FK::Val), ("default-process", Some('D'), FK::Val), ("lifecycle-image", None, FK::Val), ("buildpack-registry", Some('r'), FK::Val), ("workspace", None, FK::Val), ("gid", None, FK::Val), ("uid", None, FK::Val),
        ("previous-image", None, FK::Val), ("sbom-output-dir", None, FK::Val), ("report-output-dir", None, FK::Val), ("docker-host", None, FK::Val), ("creation-time", None, FK::Val), ("extension", None, FK::Val),
        ("pre-buildpack", None, FK::Val), ("post-buildpack", None, FK::Val), ("platform", None, FK::Val), ("exec-env", None, FK::Val),
        ("trust-builder", None, FK::Bool), ("trust-extra-buildpacks", None, FK::Bool), ("clear-cache", None, FK::Bool), ("publish", None, FK::Bool), ("verbose", Some('v'), FK::Bool), ("quiet", Some('q'), FK::Bool),
        ("no-color", None, FK::Bool), ("timestamps", None, FK::Bool), ("interactive", None, FK::Bool), ("sparse", None, FK::Bool), ("help", Some('h'), FK::Bool),
        ("force-color", None, FK::Bool), ("insecure-registry", None, FK::Val), ("layout-repo-dir", None, FK::Val), ("sbom-output-dir", None, FK::Val), ("layout", None, FK::Bool), ("disable-system-buildpacks", None, FK::Bool),
    ],
};
/// the value of --path / -p of a `pack build` command line as pack's own grammar sees it (used by the stand-in, so that a
/// user string that merely looks like `-p` is not mistaken for the option)
pub fn pack_build_path(args_after_build: &[String]) -> Option<String> {
    let p = pflag_parse(args_after_build, &PACK_BUILD).ok()?;
    p.flags.iter().rev().find(|f| f.0 == "path").and_then(|f| f.1.clone())
}

const PACK_SBOM: Spec = Spec { interspersed: true, flags: &[("output-dir", Some('o'), FK::Val), ("remote", None, FK::Bool), ("verbose", Some('v'), FK::Bool), ("quiet", Some('q'), FK::Bool), ("no-color", None, FK::Bool), ("timestamps", None, FK::Bool)] };
const DOCKER_RUN: Spec = Spec {
    interspersed: false,
    flags: &[
        ("name", None, FK::Val), ("platform", None, FK::Val), ("entrypoint", None, FK::Val), ("env", Some('e'), FK::Val), ("publish", Some('p'), FK::Val), ("mount", None, FK::Val), ("volume", Some('v'), FK::Val),
        ("workdir", Some('w'), FK::Val), ("user", Some('u'), FK::Val), ("label", Some('l'), FK::Val), ("network", None, FK::Val), ("hostname", Some('h'), FK::Val), ("memory", Some('m'), FK::Val), ("cpus", None, FK::Val),
        ("restart", None, FK::Val), ("pull", None, FK::Val), ("env-file", None, FK::Val), ("expose", None, FK::Val), ("add-host", None, FK::Val), ("cap-add", None, FK::Val), ("device", None, FK::Val), ("tmpfs", None, FK::Val),
        ("annotation", None, FK::Val), ("attach", Some('a'), FK::Val), ("blkio-weight", None, FK::Val), ("blkio-weight-device", None, FK::Val), ("cap-drop", None, FK::Val), ("cgroup-parent", None, FK::Val), ("cgroupns", None, FK::Val), ("cidfile", None, FK::Val), ("cpu-period", None, FK::Val), ("cpu-quota", None, FK::Val), ("cpu-rt-period", None, FK::Val), ("cpu-rt-runtime", None, FK::Val), ("cpu-shares", Some('c'), FK::Val), ("cpuset-cpus", None, FK::Val), ("cpuset-mems", None, FK::Val), ("detach-keys", None, FK::Val), ("device-cgroup-rule", None, FK::Val), ("device-read-bps", None, FK::Val), ("device-read-iops", None, FK::Val), ("device-write-bps", None, FK::Val), ("device-write-iops", None, FK::Val), ("dns", None, FK::Val), ("dns-option", None, FK::Val), ("dns-search", None, FK::Val), ("domainname", None, FK::Val), ("gpus", None, FK::Val), ("group-add", None, FK::Val), ("health-cmd", None, FK::Val), ("health-interval", None, FK::Val), ("health-retries", None, FK::Val), ("health-start-interval", None, FK::Val), ("health-start-period", None, FK::Val), ("health-timeout", None, FK::Val), ("io-maxbandwidth", None, FK::Val), ("io-maxiops", None, FK::Val), ("ip", None, FK::Val), ("ip6", None, FK::Val), ("ipc", None, FK::Val), ("isolation", None, FK::Val), ("kernel-memory", None, FK::Val), ("label-file", None, FK::Val), ("link", None, FK::Val), ("link-local-ip", None, FK::Val), ("log-driver", None, FK::Val), ("log-opt", None, FK::Val), ("mac-address", None, FK::Val), ("memory-reservation", None, FK::Val), ("memory-swap", None, FK::Val), ("memory-swappiness", None, FK::Val), ("network-alias", None, FK::Val), ("oom-score-adj", None, FK::Val), ("pid", None, FK::Val), ("pids-limit", None, FK::Val), ("runtime", None, FK::Val), ("security-opt", None, FK::Val), ("shm-size", None, FK::Val), ("stop-signal", None, FK::Val), ("stop-timeout", None, FK::Val), ("storage-opt", None, FK::Val), ("sysctl", None, FK::Val), ("ulimit", None, FK::Val), ("userns", None, FK::Val), ("uts", None, FK::Val), ("volume-driver", None, FK::Val), ("volumes-from", None, FK::Val), 
        ("detach", Some('d'), FK::Bool), ("rm", None, FK::Bool), ("interactive", Some('i'), FK::Bool), ("tty", Some('t'), FK::Bool), ("privileged", None, FK::Bool), ("init", None, FK::Bool), ("read-only", None, FK::Bool),
        ("quiet", Some('q'), FK::Bool), ("publish-all", Some('P'), FK::Bool), ("sig-proxy", None, FK::Bool), ("no-healthcheck", None, FK::Bool), ("oom-kill-disable", None, FK::Bool), ("help", None, FK::Bool),
        ("disable-content-trust", None, FK::Bool),
    ],
};
const DOCKER_EXEC: Spec = Spec { interspersed: false, flags: &[("detach", Some('d'), FK::Bool), ("interactive", Some('i'), FK::Bool), ("tty", Some('t'), FK::Bool), ("privileged", None, FK::Bool), ("env", Some('e'), FK::Val), ("user", Some('u'), FK::Val), ("workdir", Some('w'), FK::Val), ("detach-keys", None, FK::Val), ("env-file", None, FK::Val)] };
const DOCKER_LOGS: Spec = Spec { interspersed: true, flags: &[("follow", Some('f'), FK::Bool), ("details", None, FK::Bool), ("timestamps", Some('t'), FK::Bool), ("since", None, FK::Val), ("tail", Some('n'), FK::Val), ("until", None, FK::Val)] };
const DOCKER_PORT: Spec = Spec { interspersed: true, flags: &[] };
const DOCKER_RM: Spec = Spec { interspersed: true, flags: &[("force", Some('f'), FK::Bool), ("volumes", Some('v'), FK::Bool), ("link", Some('l'), FK::Bool)] };
const DOCKER_RMI: Spec = Spec { interspersed: true, flags: &[("force", Some('f'), FK::Bool), ("no-prune", None, FK::Bool)] };
const DOCKER_VOLUME_RM: Spec = Spec { interspersed: true, flags: &[("force", Some('f'), FK::Bool)] };

// ---------------------------------------------------------------------------------------------
// generated configurations
// ---------------------------------------------------------------------------------------------

fn tricky() -> impl Strategy<Value = String> {
    prop_oneof![
        3 => prop_oneof![Just("--rm".to_string()), Just("--env".to_string()), Just("-e".to_string()), Just("--".to_string()), Just("-".to_string()), Just("--entrypoint=/bin/sh".to_string()), Just("--detach".to_string()), Just("-d".to_string()), Just("--name".to_string()), Just("--force".to_string()), Just("--buildpack".to_string()), Just("--trust-builder=false".to_string()), Just("-v".to_string())],
        2 => prop_oneof![Just("a b".to_string()), Just("k=v".to_string()), Just("=".to_string()), Just("a=b=c".to_string()), Just("line1\nline2".to_string()), Just("'single' \"double\"".to_string()), Just("$HOME `x` \\".to_string()), Just("ünï çødé".to_string()), Just(" lead".to_string()), Just("trail ".to_string())],
        3 => "[a-z/.:_-]{1,10}",
        1 => Just(String::new()),
    ]
}

fn nonempty_tricky() -> impl Strategy<Value = String> {
    tricky().prop_filter("non-empty", |s| !s.is_empty())
}

fn env_key() -> impl Strategy<Value = String> {
    prop_oneof![
        4 => "[A-Z][A-Z0-9_]{0,6}",
        2 => prop_oneof![Just("--rm".to_string()), Just("-e".to_string()), Just("a b".to_string()), Just("--env".to_string()), Just("ünï".to_string()), Just("-".to_string())],
    ]
}

fn csv_safe(s: &str) -> bool {
    !s.contains(',') && !s.contains('"') && !s.contains('\r') && !s.contains('\n')
}

#[derive(Clone, Debug)]
pub struct BCfg {
    builder: String,
    app_abs: bool,
    preprocessor: bool,
    /// distinguishes the edits of different preprocessors (build vs. rebuild)
    pre_tag: u8,
    buildpacks: Vec<String>,
    env: Vec<(String, String)>,
    /// order (and variants) of the setter calls that build the configuration; 0 = canonical
    call_order: u16,
}

#[derive(Clone, Debug)]
pub struct CCfg {
    call_order: u16,
    entrypoint: Option<String>,
    command: Option<Vec<String>>,
    env: Vec<(String, String)>,
    ports: Vec<u16>,
    mounts: Vec<(String, String)>,
    shell_exec: Option<String>,
}

#[derive(Clone, Debug)]
pub struct Case {
    build: BCfg,
    containers: Vec<CCfg>,
    run_shell: Option<String>,
    rebuild: Option<BCfg>,
    /// the (one) pack build process is killed by a signal: the test fails — and pack must not be invoked a second time
    pack_killed: bool,
}

fn bcfg() -> impl Strategy<Value = BCfg> {
    (
        nonempty_tricky(),
        any::<bool>(),
        any::<bool>(),
        proptest::collection::vec(nonempty_tricky().prop_filter("csv metacharacters are outside the domain", |s| csv_safe(s)), 0..6),
        proptest::collection::vec((env_key(), tricky()), 0..7),
        prop_oneof![1 => Just(0u16), 3 => any::<u16>()],
    )
        .prop_map(|(builder, app_abs, preprocessor, buildpacks, env, call_order)| BCfg { builder, app_abs, preprocessor, pre_tag: 0, buildpacks, env, call_order })
}

fn ccfg() -> impl Strategy<Value = CCfg> {
    (
        proptest::option::of(tricky()),
        proptest::option::of(proptest::collection::vec(tricky(), 0..5)),
        proptest::collection::vec((env_key(), tricky()), 0..6),
        proptest::collection::vec(prop_oneof![Just(80u16), Just(8080), Just(1), Just(65535), any::<u16>()], 0..4),
        // bind mounts: made-up sources, and (<MNT> = a directory of the scenario) sources that EXIST on the host under a
        // non-canonical spelling — through a symbolic link, with a `..` — and denote the same directory
        proptest::collection::vec((prop_oneof![3 => "/[a-z -]{1,8}".prop_filter("csv", |s| csv_safe(s)), 1 => Just("<MNT>/real".to_string()), 1 => Just("<MNT>/link".to_string()), 1 => Just("<MNT>/real/../real".to_string())], "/[a-z=. -]{1,8}".prop_filter("csv", |s| csv_safe(s))), 0..4),
        proptest::option::of(tricky()),
        prop_oneof![1 => Just(0u16), 3 => any::<u16>()],
    )
        .prop_map(|(entrypoint, command, env, ports, mounts, shell_exec, call_order)| CCfg { call_order, entrypoint, command, env, ports, mounts, shell_exec })
}

fn case_strategy() -> impl Strategy<Value = Case> {
    (bcfg(), proptest::collection::vec(ccfg(), 0..3), proptest::option::of(tricky()), proptest::option::weighted(0.3, bcfg()), any::<bool>(), proptest::bool::weighted(0.06)).prop_map(|(build, mut containers, run_shell, mut rebuild, same_app, pack_killed)| {
        if let Some(rb) = rebuild.as_mut() {
            // the rebuild's preprocessor makes different edits than the first build's
            rb.pre_tag = 1;
            if same_app {
                rb.app_abs = build.app_abs;
            }
        }
        // half of the containers with an entrypoint and a command start the command with the entrypoint string itself
        for (i, cc) in containers.iter_mut().enumerate() {
            if let (Some(e), Some(cmd)) = (&cc.entrypoint, cc.command.as_mut()) {
                if i % 2 == 0 && !cmd.is_empty() {
                    cmd[0] = e.clone();
                }
            }
        }
        Case { build, containers, run_shell, rebuild, pack_killed }
    })
}

fn bcfg_json(b: &BCfg, manifest_abs_app: &str) -> Value {
    json!({"builder": b.builder, "app_dir": if b.app_abs { manifest_abs_app.to_string() } else { "fixtures/app".to_string() }, "buildpacks": b.buildpacks, "env": b.env.iter().map(|(k, v)| json!([k, v])).collect::<Vec<_>>(), "expect_failure": false, "preprocessor": b.preprocessor, "pre_tag": b.pre_tag, "call_order": b.call_order})
}

fn scenario_json(c: &Case, manifest_abs_app: &str) -> Value {
    let mut steps: Vec<Value> = c
        .containers
        .iter()
        .map(|cc| {
            json!({"start_container": {"cfg": {"call_order": cc.call_order, "entrypoint": cc.entrypoint, "command": cc.command, "env": cc.env.iter().map(|(k, v)| json!([k, v])).collect::<Vec<_>>(), "ports": cc.ports, "mounts": cc.mounts.iter().map(|(s, t)| json!([s, t])).collect::<Vec<_>>()},
                "inner": cc.shell_exec.iter().map(|s| json!({"shell_exec": s})).collect::<Vec<_>>()}})
        })
        .collect();
    if let Some(s) = &c.run_shell {
        steps.push(json!({"run_shell": s}));
    }
    if let Some(rb) = &c.rebuild {
        steps.push(json!({"rebuild": {"cfg": bcfg_json(rb, manifest_abs_app), "steps": []}}));
    }
    let mut v = json!({"build": {"cfg": bcfg_json(&c.build, manifest_abs_app), "steps": steps}});
    if c.pack_killed {
        v["pack_killed"] = json!(true);
        v["fail_flavour"] = json!(5); // killed by SIGKILL
    }
    v
}

fn case_json(c: &Case) -> Value {
    scenario_json(c, "<MANIFEST>/fixtures/app")
}

fn last_wins(env: &[(String, String)]) -> BTreeMap<String, String> {
    env.iter().cloned().collect()
}

fn flag_values<'a>(p: &'a Parsed, name: &str) -> Vec<&'a str> {
    p.flags.iter().filter(|f| f.0 == name).map(|f| f.1.as_deref().unwrap_or("")).collect()
}

fn check_pack_build(a: &[String], cfg: &BCfg, o: &trrun::TrOutcome, entry: &Value, image: &mut Option<String>) -> Check {
    let p = pflag_parse(&a[1..], &PACK_BUILD).map_err(|e| Fail::new("C17:pack-build-unparsable", format!("{e}: {a:?}")))?;
    ensure!(p.positionals.len() == 1, "C17:pack-build-positionals", "pack's grammar sees positionals {:?} in {a:?}", p.positionals);
    if let Some(prev) = image {
        ensure!(*prev == p.positionals[0], "C17:rebuild-uses-different-image", "{prev} vs {}", p.positionals[0]);
    }
    *image = Some(p.positionals[0].clone());
    ensure!(flag_values(&p, "builder") == vec![cfg.builder.as_str()], "C17:builder", "decoded {:?}, configured {:?}; argv {a:?}", flag_values(&p, "builder"), cfg.builder);
    // buildpacks: in order; a string-slice flag splits on commas (values are CSV-safe by domain)
    let got_bps: Vec<String> = flag_values(&p, "buildpack").iter().flat_map(|v| v.split(',').map(String::from).collect::<Vec<_>>()).collect();
    ensure!(got_bps == cfg.buildpacks, "C17:buildpacks", "decoded {got_bps:?}, configured {:?}; argv {a:?}", cfg.buildpacks);
    // env: every pair exactly once
    let mut got_env: Vec<(String, String)> = vec![];
    for v in flag_values(&p, "env") {
        let (k, val) = v.split_once('=').ok_or_else(|| Fail::new("C17:pack-env-without-equals", format!("{v:?} in {a:?}")))?;
        got_env.push((k.to_string(), val.to_string()));
    }
    let want_env = last_wins(&cfg.env);
    let got_map: BTreeMap<String, String> = got_env.iter().cloned().collect();
    ensure!(got_env.len() == want_env.len() && got_map == want_env, "C17:pack-env", "decoded {got_env:?}, configured {want_env:?}; argv {a:?}");
    // app path
    let paths = flag_values(&p, "path");
    ensure!(paths.len() == 1, "C17:pack-path-count", "{paths:?}");
    let fixture = o.manifest_dir.join("fixtures/app");
    let listing = &entry["extra"]["path_listing"];
    let names: BTreeSet<String> = listing.as_object().map(|m| m.keys().cloned().collect()).unwrap_or_default();
    if cfg.preprocessor {
        ensure!(Path::new(paths[0]) != fixture, "C17:preprocessor-ran-on-fixture-path", "--path is the fixture itself although a preprocessor is configured");
        let marker = if cfg.pre_tag == 0 { "preprocessed.txt".to_string() } else { format!("preprocessed-{}.txt", cfg.pre_tag) };
        let want: BTreeSet<String> = ["file.txt", "sub/inner", "vendor/readonly.sh", marker.as_str()].iter().map(|s| s.to_string()).collect();
        ensure!(names == want, "C17:app-copy-content", "the directory handed to pack contains {names:?}, expected fixture + preprocessor edits {want:?}");
        ensure!(listing["file.txt"] == "fixture file" && listing[marker.as_str()] == "added by the preprocessor", "C17:app-copy-content", "{listing}");
        ensure!(listing["vendor/readonly.sh"] == "read-only fixture file + preprocessed", "C17:app-copy-content", "in-place edit of a read-only fixture file missing from the copy: {listing}");
    } else {
        // the fixture itself — or a directory with exactly the fixture's content (a private, unmodified copy)
        let want: BTreeSet<String> = ["file.txt", "sub/inner", "vendor/readonly.sh", "remove-me.txt"].iter().map(|s| s.to_string()).collect();
        let same_content = names == want && listing["file.txt"] == "fixture file" && listing["vendor/readonly.sh"] == "read-only fixture file" && listing["sub/inner"] == "inner";
        ensure!(Path::new(paths[0]) == fixture || same_content, "C17:app-path", "--path {:?} is neither the fixture {:?} nor a copy of it ({names:?})", paths[0], fixture);
    }
    // how many --cache options the tool passes is resource management (C16), not configuration
    // flags the configuration does not explain are tolerated (the tool may pass further options of its own) unless the
    // token that was classified as a flag is one of the user-supplied strings
    let mut user: Vec<&String> = vec![&cfg.builder];
    user.extend(cfg.buildpacks.iter());
    for (k, v) in &cfg.env {
        user.push(k);
        user.push(v);
    }
    for ((n, _), raw) in p.flags.iter().zip(&p.raw) {
        if !["builder", "path", "cache", "buildpack", "env"].contains(&n.as_str()) {
            ensure!(!user.contains(&raw), "C17:user-string-classified-as-flag", "user string {raw:?} was parsed as flag --{n} in {a:?}");
        }
    }
    Ok(())
}

fn check_docker_run(a: &[String], image: &str, want: &RunWant) -> Check {
    let p = pflag_parse(&a[1..], &DOCKER_RUN).map_err(|e| Fail::new("C17:docker-run-unparsable", format!("{e}: {a:?}")))?;
    ensure!(!p.positionals.is_empty() && p.positionals[0] == image, "C17:docker-run-image", "docker's grammar sees image {:?}, expected {image}; argv {a:?}", p.positionals.first());
    let cmd: Vec<String> = p.positionals[1..].to_vec();
    ensure!(cmd == want.command, "C17:docker-run-command", "decoded command {cmd:?}, configured {:?}; argv {a:?}", want.command);
    let ep = flag_values(&p, "entrypoint");
    match &want.entrypoint {
        None => ensure!(ep.is_empty(), "C17:docker-run-entrypoint", "unexpected entrypoint {ep:?}"),
        Some(e) => ensure!(ep == vec![e.as_str()], "C17:docker-run-entrypoint", "decoded {ep:?}, configured {e:?}; argv {a:?}"),
    }
    let mut got_env: Vec<(String, String)> = vec![];
    for v in flag_values(&p, "env") {
        let (k, val) = v.split_once('=').ok_or_else(|| Fail::new("C17:docker-env-without-equals", format!("{v:?} in {a:?}")))?;
        got_env.push((k.to_string(), val.to_string()));
    }
    let got_map: BTreeMap<String, String> = got_env.iter().cloned().collect();
    ensure!(got_env.len() == want.env.len() && got_map == want.env, "C17:docker-run-env", "decoded {got_env:?}, configured {:?}; argv {a:?}", want.env);
    let mut got_ports = BTreeSet::new();
    for v in flag_values(&p, "publish") {
        // docker's publish grammar: [ip:][hostPort]:containerPort[/proto] — the exposed (container) port is the last field
        let last = v.rsplit(':').next().unwrap_or("");
        let port = last.split('/').next().unwrap_or("");
        got_ports.insert(port.parse::<u16>().map_err(|_| Fail::new("C17:docker-run-publish", format!("{v:?}: no container port")))?);
    }
    ensure!(got_ports == want.ports && flag_values(&p, "publish").len() == want.ports.len(), "C17:docker-run-ports", "decoded {got_ports:?}, configured {:?}", want.ports);
    let mut got_mounts = BTreeMap::new();
    for v in flag_values(&p, "mount") {
        let kv: BTreeMap<&str, &str> = v.split(',').filter_map(|f| f.split_once('=')).collect();
        ensure!(kv.get("type").map(|t| *t == "bind").unwrap_or(false), "C17:docker-run-mount", "{v:?}");
        let src = kv.get("source").or_else(|| kv.get("src")).copied().unwrap_or("");
        let dst = kv.get("target").or_else(|| kv.get("dst")).or_else(|| kv.get("destination")).copied().unwrap_or("");
        got_mounts.insert(src.to_string(), dst.to_string());
    }
    for v in flag_values(&p, "volume") {
        // -v / --volume src:dst[:options] is docker's other spelling of a bind mount (absolute source)
        let mut it = v.splitn(3, ':');
        if let (Some(src), Some(dst)) = (it.next(), it.next()) {
            if src.starts_with('/') {
                got_mounts.insert(src.to_string(), dst.to_string());
            }
        }
    }
    ensure!(got_mounts == want.mounts, "C17:docker-run-mounts", "decoded {got_mounts:?}, configured {:?}", want.mounts);
    ensure!(p.flags.iter().any(|f| f.0 == "detach") == want.detach, "C17:docker-run-detach", "{a:?}");
    // --rm and --name are resource management (C16), not configuration
    let _ = want.rm;
    for ((n, _), raw) in p.flags.iter().zip(&p.raw) {
        if !["name", "detach", "rm", "entrypoint", "env", "publish", "mount", "volume"].contains(&n.as_str()) {
            ensure!(!want.user_strings.contains(raw), "C17:user-string-classified-as-flag", "user string {raw:?} was parsed as flag --{n} in {a:?}");
        }
    }
    Ok(())
}

struct RunWant {
    entrypoint: Option<String>,
    command: Vec<String>,
    env: BTreeMap<String, String>,
    ports: BTreeSet<u16>,
    mounts: BTreeMap<String, String>,
    detach: bool,
    rm: bool,
    user_strings: Vec<String>,
}

fn check(ctx: &Ctx, scratch: &Path, c: &Case) -> Check {
    ctx.eval();
    check_pure(scratch, c)
}

fn check_pure(scratch: &Path, c: &Case) -> Check {
    let root = scratch.join(format!("c-{:016x}-{}", hash_of(&case_json(c).to_string()), crate::core::uniq()));
    // <MNT> in bind-mount sources = the scenario's mnt directory (holds `real/` and `link -> real`)
    let abs_mnt = root.join("manifest dir/mnt").to_string_lossy().to_string();
    let c = &{
        let mut c2 = c.clone();
        for cc in c2.containers.iter_mut() {
            for (src, _) in cc.mounts.iter_mut() {
                *src = src.replace("<MNT>", &abs_mnt);
            }
        }
        c2
    };
    let abs_app = root.join("manifest dir/fixtures/app").to_string_lossy().to_string();
    let scn = scenario_json(c, &abs_app);
    let o = trrun::run_scenario(&root, &scn, if c.pack_killed { Some(1) } else { None }, "");
    let r = (|| -> Check {
        if c.pack_killed {
            // the first external command (pack build) was killed by a signal: the test fails, and the configuration still
            // results in ONE pack build invocation — not in a silent second attempt
            let n = o.log.iter().filter(|e| e["prog"] == "pack" && argv(e).first().map(String::as_str) == Some("build")).count();
            ensure!(n == 1, "C17:pack-build-count", "{n} pack build invocations after the first one was killed by a signal");
            return Ok(());
        }
        ensure!(o.code == Some(0), "C17:scenario-did-not-complete", "exit {:?}: {}", o.code, o.stderr.chars().take(400).collect::<String>());
        // expected sequence of user-visible commands
        let mut image: Option<String> = None;
        // commands the tool may run on its own before the first `pack build` (version checks, pulls) are skipped
        let is_pack_build = |e: &Value| e["prog"] == "pack" && argv(e).first().map(String::as_str) == Some("build");
        let mut it = o.log.iter().skip_while(|e| !is_pack_build(e)).peekable();
        let first = it.next().ok_or_else(|| Fail::new("C17:no-pack-build", "no pack build invocation recorded"))?;
        let a = argv(first);
        check_pack_build(&a, &c.build, &o, first, &mut image)?;
        let img = image.clone().unwrap();
        let pack_builds = o.log.iter().filter(|e| e["prog"] == "pack" && argv(e).first().map(String::as_str) == Some("build")).count();
        ensure!(pack_builds == 1 + c.rebuild.is_some() as usize, "C17:pack-build-count", "{pack_builds} pack build invocations");
        // remaining commands in order
        let mut containers = c.containers.iter();
        let mut pending_exec: Option<(&CCfg, String)> = None;
        let mut seen_run_shell = false;
        for e in it {
            let a = argv(e);
            let prog = e["prog"].as_str().unwrap_or("");
            match (prog, a.first().map(String::as_str)) {
                ("docker", Some("run")) => {
                    let p = pflag_parse(&a[1..], &DOCKER_RUN).map_err(|er| Fail::new("C17:docker-run-unparsable", format!("{er}: {a:?}")))?;
                    let detached = p.flags.iter().any(|f| f.0 == "detach");
                    if detached {
                        let cc = containers.next().ok_or_else(|| Fail::new("C17:unexpected-container", format!("{a:?}")))?;
                        let want = RunWant { entrypoint: cc.entrypoint.clone(), command: cc.command.clone().unwrap_or_default(), env: last_wins(&cc.env), ports: cc.ports.iter().copied().collect(), mounts: cc.mounts.iter().cloned().collect(), detach: true, rm: false, user_strings: cc.entrypoint.iter().cloned().chain(cc.command.iter().flatten().cloned()).chain(cc.env.iter().flat_map(|(k, v)| [k.clone(), v.clone()])).collect() };
                        check_docker_run(&a, &img, &want)?;
                        let name = flag_values(&p, "name").first().map(|s| s.to_string()).unwrap_or_default();
                        pending_exec = Some((cc, name));
                    } else {
                        let cmd = c.run_shell.clone().ok_or_else(|| Fail::new("C17:unexpected-run", format!("{a:?}")))?;
                        // run_shell_command: the image and, as the LAST argument in a value position, the user's command string
                        ensure!(!p.positionals.is_empty() && p.positionals[0] == img, "C17:docker-run-image", "docker's grammar sees image {:?}, expected {img}; argv {a:?}", p.positionals.first());
                        ensure!(p.positionals.len() >= 2 && p.positionals.last() == Some(&cmd), "C17:docker-run-command", "decoded command {:?}, configured shell command {cmd:?}; argv {a:?}", &p.positionals[1..]);
                        for ((n, _), raw) in p.flags.iter().zip(&p.raw) {
                            // flags the tool passes itself (--rm, --name ...) may coincide with the user's string; any OTHER flag token
                            // equal to it is the user's string sitting in a flag position
                            if !["name", "detach", "rm", "entrypoint", "env", "publish", "mount", "volume"].contains(&n.as_str()) {
                                ensure!(*raw != cmd, "C17:user-string-classified-as-flag", "user string {raw:?} was parsed as flag --{n} in {a:?}");
                            }
                        }
                        seen_run_shell = true;
                    }
                }
                ("docker", Some("exec")) => {
                    let p = pflag_parse(&a[1..], &DOCKER_EXEC).map_err(|er| Fail::new("C17:docker-exec-unparsable", format!("{er}: {a:?}")))?;
                    let (cc, name) = pending_exec.as_ref().ok_or_else(|| Fail::new("C17:unexpected-exec", format!("{a:?}")))?;
                    // the container, then a command line whose LAST argument is the user's command string (how it is wrapped —
                    // launcher, a shell — is not configuration); flags the tool adds itself are fine unless they are the user string
                    let user = cc.shell_exec.clone().unwrap_or_default();
                    for raw in &p.raw {
                        ensure!(*raw != user, "C17:user-string-classified-as-flag", "docker exec: user string {raw:?} parsed as a flag in {a:?}");
                    }
                    ensure!(p.positionals.len() >= 2 && (name.is_empty() || p.positionals[0] == *name) && p.positionals.last() == Some(&user), "C17:docker-exec-args", "decoded {:?}, expected [{name:?}, .., {user:?}]", p.positionals);
                }
                ("docker", Some("rm")) => {
                    let p = pflag_parse(&a[1..], &DOCKER_RM).map_err(|er| Fail::new("C17:docker-rm-unparsable", format!("{er}: {a:?}")))?;
                    // how and when resources are removed is C16's business; here only: the line decodes and names something
                    ensure!(!p.positionals.is_empty(), "C17:docker-rm", "{a:?}");
                }
                ("docker", Some("rmi")) => {
                    let p = pflag_parse(&a[1..], &DOCKER_RMI).map_err(|er| Fail::new("C17:docker-rmi-unparsable", format!("{er}: {a:?}")))?;
                    ensure!(p.positionals.contains(&img), "C17:docker-rmi", "{a:?}");
                }
                ("docker", Some("volume")) => {
                    let p = pflag_parse(&a[2..], &DOCKER_VOLUME_RM).map_err(|er| Fail::new("C17:docker-volume-unparsable", format!("{er}: {a:?}")))?;
                    ensure!(!p.positionals.is_empty(), "C17:docker-volume-rm", "{a:?}");
                }
                ("docker", Some("logs")) => {
                    pflag_parse(&a[1..], &DOCKER_LOGS).map_err(|er| Fail::new("C17:docker-logs-unparsable", format!("{er}: {a:?}")))?;
                }
                ("docker", Some("port")) => {
                    pflag_parse(&a[1..], &DOCKER_PORT).map_err(|er| Fail::new("C17:docker-port-unparsable", format!("{er}: {a:?}")))?;
                }
                ("pack", Some("build")) => {
                    let rb = c.rebuild.as_ref().ok_or_else(|| Fail::new("C17:unexpected-pack-build", format!("{a:?}")))?;
                    check_pack_build(&a, rb, &o, e, &mut image)?;
                }
                ("pack", Some("sbom")) => {
                    pflag_parse(&a[2..], &PACK_SBOM).map_err(|er| Fail::new("C17:pack-sbom-unparsable", format!("{er}: {a:?}")))?;
                }
                // anything else the tool runs on its own (version checks, inspect, wait, stop ...) is not configuration
                _ => {}
            }
        }
        ensure!(containers.next().is_none(), "C17:container-not-started", "a configured container was never started");
        ensure!(seen_run_shell == c.run_shell.is_some(), "C17:run-shell-missing", "run_shell_command not seen");
        // the fixture is never modified
        let d = crate::fsutil::diff(&o.fixture_before, &o.fixture_after, 4);
        ensure!(d.is_empty(), "C17:fixture-modified", "{d:?}");
        Ok(())
    })();
    let _ = crate::fsutil::force_remove(&root);
    r
}

fn nontrivial(c: &Case) -> bool {
    let mut strings: Vec<&String> = vec![&c.build.builder];
    strings.extend(c.build.buildpacks.iter());
    for (k, v) in &c.build.env {
        strings.push(k);
        strings.push(v);
    }
    for cc in &c.containers {
        strings.extend(cc.entrypoint.iter());
        strings.extend(cc.command.iter().flatten());
        for (k, v) in &cc.env {
            strings.push(k);
            strings.push(v);
        }
    }
    let tricky = strings.iter().any(|s| s.starts_with('-') || s.contains('=') || s.contains(' ') || s.contains('\n'));
    tricky && (c.build.env.len() >= 2 || c.build.buildpacks.len() >= 2)
}

pub fn run(ctx: &Ctx) {
    ctx.set_rule("build configurations (builder name, relative/absolute app path, with/without a preprocessor that adds a file, removes a file and makes a read-only fixture file writable and extends it in place, 0..5 buildpack references, 0..6 env pairs) and 0..2 container configurations (entrypoint, command vector, env, port sets, bind mounts incl. sources that exist on the host under a non-canonical spelling — via a symbolic link, with `..`) plus run_shell_command / shell_exec strings and an optional rebuild (in 6% the pack process is killed by a signal: still exactly one pack build), with strings weighted towards leading '-'/'--', option look-alikes (--rm, --env, -e, --, --name, --entrypoint=/bin/sh, --trust-builder=false), spaces, '=', quotes, newlines, shell metacharacters, Unicode and the empty string; the configuration objects are built by calling their setters in a generated order (also: app_dir set after the preprocessor on a config created for another fixture, envs() instead of env(), an entrypoint set twice); executed in a worker through TestRunner::build -> start_container / shell_exec / run_shell_command / rebuild with stand-in pack/docker recording argv bytes. Oracle: a reference parser of the pflag grammars of `pack build` (interspersed flags; value flags consume the next token) and `docker run|exec|logs|port|rm|rmi|volume rm` (run/exec stop flag parsing at the first positional) decodes every recorded command line; the decoded builder, app path (fixture itself, or a different directory whose content = fixture + the preprocessor's edits, fixture snapshot unchanged), buildpacks in order, env pairs exactly once, entrypoint, env map, published ports on 127.0.0.1, mounts, image and command vector must equal the configuration; further flags the tool passes on its own are tolerated, but no user-supplied string may be the token that is classified as such a flag. Non-trivial: >= 1 user string starts with '-' or contains '=', space or newline, and the configuration has >= 2 env pairs or >= 2 buildpacks; distinct = hash of the case.");
    ctx.assume("CSV metacharacters (',', '\"', CR, LF) in --mount paths and --buildpack values, empty buildpack references, env keys containing '=' are outside the domain; the grammar is the harness's transcription of pflag/docker CLI behaviour");
    let scratch = Scratch::new("c17");
    for (_p, v) in ctx.regress_files() {
        let _ = v;
    }
    ctx.run_prop_par(
        "configs",
        case_strategy(),
        ctx.tier.pick(15_000, 150_000),
        case_json,
        |c| (check_pure(&scratch.path, c), ()),
        |c, ()| {
            ctx.eval();
            if nontrivial(c) {
                ctx.class("nontrivial");
                ctx.nontrivial(hash_of(&case_json(c).to_string()));
                if (ctx.samples_len() < 2 || hash_of(&case_json(c).to_string()) % 211 == 0) {
                    ctx.sample(5, || case_json(c));
                }
            }
            if c.build.preprocessor {
                ctx.class("with-preprocessor");
            }
            if c.rebuild.is_some() {
                ctx.class("with-rebuild");
            }
            ctx.class_n("containers", c.containers.len() as u64);
        },
    );
}

fn bcfg_from_json(v: &Value) -> BCfg {
    BCfg {
        builder: v["builder"].as_str().unwrap().into(),
        app_abs: v["app_dir"].as_str().unwrap().starts_with('<') || v["app_dir"].as_str().unwrap().starts_with('/'),
        preprocessor: v["preprocessor"].as_bool().unwrap(),
        pre_tag: v["pre_tag"].as_u64().unwrap_or(0) as u8,
        buildpacks: v["buildpacks"].as_array().unwrap().iter().map(|s| s.as_str().unwrap().to_string()).collect(),
        env: v["env"].as_array().unwrap().iter().map(|kv| (kv[0].as_str().unwrap().to_string(), kv[1].as_str().unwrap().to_string())).collect(),
        call_order: v["call_order"].as_u64().unwrap_or(0) as u16,
    }
}

pub fn replay(ctx: &Ctx, _sub: &str, case: &Value) {
    let scratch = Scratch::new("c17r");
    let b = &case["build"];
    let mut c = Case { build: bcfg_from_json(&b["cfg"]), containers: vec![], run_shell: None, rebuild: None, pack_killed: case["pack_killed"].as_bool().unwrap_or(false) };
    for s in b["steps"].as_array().unwrap() {
        if let Some(sc) = s.get("start_container") {
            let cfg = &sc["cfg"];
            let pairs = |v: &Value| -> Vec<(String, String)> { v.as_array().unwrap().iter().map(|kv| (kv[0].as_str().unwrap().to_string(), kv[1].as_str().unwrap().to_string())).collect() };
            c.containers.push(CCfg {
                call_order: cfg["call_order"].as_u64().unwrap_or(0) as u16,
                entrypoint: cfg["entrypoint"].as_str().map(String::from),
                command: cfg["command"].as_array().map(|a| a.iter().map(|x| x.as_str().unwrap().to_string()).collect()),
                env: pairs(&cfg["env"]),
                ports: cfg["ports"].as_array().unwrap().iter().map(|p| p.as_u64().unwrap() as u16).collect(),
                mounts: pairs(&cfg["mounts"]),
                shell_exec: sc["inner"].as_array().unwrap().first().and_then(|i| i["shell_exec"].as_str().map(String::from)),
            });
        } else if let Some(r) = s.get("run_shell") {
            c.run_shell = r.as_str().map(String::from);
        } else if let Some(rb) = s.get("rebuild") {
            c.rebuild = Some(bcfg_from_json(&rb["cfg"]));
        }
    }
    ctx.check_case("replay", check(ctx, &scratch.path, &c), || case.clone());
}
