pub mod c04;
