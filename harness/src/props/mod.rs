pub mod c04;
pub mod c07;
pub mod c08;
pub mod c09;
pub mod c13;
pub mod c14;
pub mod c18;
pub mod c19;
