//! C12 — a failed file operation in layer handling or output writing is reported.

use crate::bprun::{self, BpRun, VALID_BUILDPACK_TOML};
use crate::core::{Ctx, Fail, Scratch, bin_dir, hash_of, ncpu, par_map, verif_root};
use crate::fsutil::{self, Snapshot};
use crate::props::{c01, c02, c07};
use crate::tv::{TV, meta_table};
use proptest::prelude::*;
use serde_json::{Value, json};
use std::ffi::OsString;
use std::path::{Path, PathBuf};

#[derive(Clone, Debug)]
pub enum Pair {
    /// struct API: prepared by `setup`, then one request followed by writes
    Struct { setup: Vec<c01::Op>, test: Vec<c01::Op> },
    /// trait API: prepared by `setup` (struct API history), then one handle_layer call
    Trait { setup: Vec<c01::Op>, test: c02::Op },
    /// runtime: detect with a plan
    Detect { plan: Vec<c07::BOp>, plan_exists: bool },
    /// runtime: build with outputs (and layer operations inside build)
    Build { layer_ops: Vec<c01::Op>, launch: Option<Vec<c07::LOp>>, store: Option<TV>, store_in: bool, build_sboms: Vec<u8>, launch_sboms: Vec<u8>, platform_files: u8 },
}

fn pair_strategy() -> impl Strategy<Value = Pair> {
    prop_oneof![
        4 => (c01::setup_history_strategy(3), c01::errorless_group_strategy(3)).prop_map(|(setup, test)| Pair::Struct { setup, test }),
        1 => (c01::setup_history_strategy(3), c01::group_with_failed_execd_strategy(3)).prop_map(|(setup, test)| Pair::Struct { setup, test }),
        3 => (c01::setup_history_strategy(3), c02::errorless_handle_strategy(3)).prop_map(|(setup, test)| Pair::Trait { setup, test }),
        // an existing layer WITH an environment, updated by a callback that hands back the env it was given
        1 => (c01::env_layer_setup_strategy(3), any::<(bool, bool)>()).prop_map(|((name, setup), (b, l))| Pair::Trait { setup, test: c02::inheriting_update_op(name, (b, l, true)) }),
        1 => (c07::plan_strategy(), any::<bool>()).prop_map(|(plan, plan_exists)| Pair::Detect { plan, plan_exists }),
        3 => (
            prop_oneof![1 => Just(vec![]), 2 => c01::errorless_group_strategy(3)],
            proptest::option::weighted(0.7, c07::launch_strategy()),
            proptest::option::weighted(0.7, meta_table(2)),
            any::<bool>(),
            proptest::collection::vec(0u8..3, 0..3),
            proptest::collection::vec(0u8..3, 0..3),
            0u8..3,
        )
            .prop_map(|(layer_ops, launch, store, store_in, build_sboms, launch_sboms, platform_files)| Pair::Build { layer_ops, launch, store, store_in, build_sboms, launch_sboms, platform_files }),
    ]
}

fn pair_json(p: &Pair) -> Value {
    match p {
        Pair::Struct { setup, test } => json!({"struct": {"setup": c01::history_json(setup), "test": c01::history_json(test)}}),
        Pair::Trait { setup, test } => json!({"trait": {"setup": c01::history_json(setup), "test": c02::history_json(std::slice::from_ref(test))}}),
        Pair::Detect { plan, plan_exists } => json!({"detect": {"plan": c07::plan_ops_json(plan), "plan_exists": plan_exists}}),
        Pair::Build { layer_ops, launch, store, store_in, build_sboms, launch_sboms, platform_files } => json!({"build": {
            "layer_ops": c01::history_json(layer_ops), "launch": launch.as_ref().map(|l| c07::launch_ops_json(l)), "store": store.as_ref().map(TV::to_json), "store_in": store_in,
            "build_sboms": build_sboms, "launch_sboms": launch_sboms, "platform_files": platform_files}}),
    }
}

fn pair_from_json(v: &Value) -> Pair {
    if let Some(x) = v.get("struct") {
        Pair::Struct { setup: c01::history_from_json(&x["setup"]), test: c01::history_from_json(&x["test"]) }
    } else if let Some(x) = v.get("trait") {
        Pair::Trait { setup: c01::history_from_json(&x["setup"]), test: c02::history_from_json(&x["test"]).remove(0) }
    } else if let Some(x) = v.get("detect") {
        Pair::Detect { plan: c07::plan_ops_from_json(&x["plan"]), plan_exists: x["plan_exists"].as_bool().unwrap() }
    } else {
        let x = &v["build"];
        let u8s = |v: &Value| -> Vec<u8> { v.as_array().unwrap().iter().map(|n| n.as_u64().unwrap() as u8).collect() };
        Pair::Build {
            layer_ops: c01::history_from_json(&x["layer_ops"]),
            launch: if x["launch"].is_null() { None } else { Some(c07::launch_ops_from_json(&x["launch"])) },
            store: if x["store"].is_null() { None } else { Some(TV::from_json(&x["store"])) },
            store_in: x["store_in"].as_bool().unwrap(),
            build_sboms: u8s(&x["build_sboms"]),
            launch_sboms: u8s(&x["launch_sboms"]),
            platform_files: x["platform_files"].as_u64().unwrap() as u8,
        }
    }
}

const ERRNOS: [(i32, &str); 4] = [(5, "EIO"), (13, "EACCES"), (28, "ENOSPC"), (2, "ENOENT")];

/// ENOENT is delivered only where it cannot mean "the thing is legitimately absent": at creating/writing opens, mkdir,
/// symlink, and at read-only opens of files inside an env directory (which the preceding directory listing
/// named). Deletions, directory listings and reads of optional files (<layer>.toml, store.toml, <platform>/env)
/// tolerate NotFound by design and are not candidates.
fn enoent_candidate(call_line: &str) -> bool {
    let mut it = call_line.splitn(3, ' ');
    let _n = it.next();
    let c = it.next().unwrap_or("");
    let path = it.next().unwrap_or("");
    match c {
        "openw" | "creat" | "mkdir" | "symlink" => true,
        // only below <layers> (the platform's env directory is an input, listed among the optional files above)
        "open" | "openat" => path.contains("/layers/") && (path.contains("/env/") || path.contains("/env.build/") || path.contains("/env.launch/")),
        _ => false,
    }
}

struct RunResult {
    claimed_success: bool,
    detail: String,
    calls: Vec<String>,
    fault: Option<String>,
    snapshot: Snapshot,
    on_error: usize,
}

fn shim_path() -> PathBuf {
    verif_root().join("shim/faultfs.so")
}

fn read_fault_log(p: &Path) -> (Vec<String>, Option<String>) {
    let text = std::fs::read_to_string(p).unwrap_or_default();
    let mut calls = vec![];
    let mut fault = None;
    for l in text.lines() {
        if let Some(f) = l.strip_prefix("FAULT ") {
            fault = Some(f.to_string());
        } else {
            calls.push(l.to_string());
        }
    }
    (calls, fault)
}

/// Execute the pair's operation once on a fresh copy of the prepared state, with the k-th matching call failing (k = 0: none).
fn execute(pair: &Pair, template: &Path, run_root: &Path, k: usize, errno: i32) -> RunResult {
    let _ = fsutil::force_remove(run_root);
    fsutil::copy_tree(template, run_root).expect("copy prepared state");
    let d = bprun::dirs(run_root);
    let log = run_root.join("ctl/fault.log");
    std::fs::create_dir_all(run_root.join("ctl")).unwrap();
    let _ = std::fs::remove_file(&log);
    let prefixes = format!("{}:{}:{}", d.layers.display(), d.plan.display(), d.platform.display());
    let shim_env: Vec<(OsString, OsString)> = vec![
        ("LD_PRELOAD".into(), shim_path().into_os_string()),
        ("FAULTFS_PREFIXES".into(), prefixes.into()),
        ("FAULTFS_K".into(), k.to_string().into()),
        ("FAULTFS_ERRNO".into(), errno.to_string().into()),
        ("FAULTFS_LOG".into(), log.clone().into_os_string()),
    ];
    let (claimed_success, detail, on_error) = match pair {
        Pair::Struct { test, .. } => worker(run_root, "struct", &c01::history_json(test), &shim_env),
        Pair::Trait { test, .. } => worker(run_root, "trait", &c02::history_json(std::slice::from_ref(test)), &shim_env),
        Pair::Detect { plan, .. } => {
            let script = json!({"detect": {"pass_plan": c07::plan_ops_json(plan)}});
            let args: Vec<OsString> = vec![d.platform.clone().into(), d.plan.clone().into()];
            let out = bprun::run(&BpRun { root: run_root, exe_name: "detect", args, env: bprun::full_env(&d), script: &script, extra_env: shim_env });
            (out.code == Some(0), format!("exit {:?} markers {:?}", out.code, out.markers), out.count("on_error"))
        }
        Pair::Build { layer_ops, launch, store, build_sboms, launch_sboms, .. } => {
            let sb = |v: &Vec<u8>| json!(v.iter().map(|f| json!([f, format!("{{\"format\":{f}}}")])).collect::<Vec<_>>());
            let script = json!({"build": {"kind": "ok", "layer_ops": if layer_ops.is_empty() { Value::Null } else { json!({"names": 3, "history": c01::history_json(layer_ops)}) },
                "launch": launch.as_ref().map(|l| c07::launch_ops_json(l)), "store": store.as_ref().map(TV::to_json), "build_sboms": sb(build_sboms), "launch_sboms": sb(launch_sboms)}});
            let args: Vec<OsString> = vec![d.layers.clone().into(), d.platform.clone().into(), d.plan.clone().into()];
            let out = bprun::run(&BpRun { root: run_root, exe_name: "build", args, env: bprun::full_env(&d), script: &script, extra_env: shim_env });
            (out.code == Some(0), format!("exit {:?} markers {:?}", out.code, out.markers), out.count("on_error"))
        }
    };
    let (calls, fault) = read_fault_log(&log);
    let mut snapshot = fsutil::snapshot(&d.layers);
    if let Ok(b) = std::fs::read(&d.plan) {
        snapshot.insert(b"<plan file>".to_vec(), fsutil::Entry { kind: fsutil::Kind::File, mode: 0, data: b });
    }
    RunResult { claimed_success, detail, calls, fault, snapshot, on_error }
}

fn worker(run_root: &Path, kind: &str, ops: &Value, shim_env: &[(OsString, OsString)]) -> (bool, String, usize) {
    let out = std::process::Command::new(bin_dir().join("vworker")).arg("c12").arg(run_root).arg(kind).arg(ops.to_string()).arg("3").envs(shim_env.iter().cloned()).output().expect("harness: spawn vworker");
    let stdout = String::from_utf8_lossy(&out.stdout).to_string();
    match serde_json::from_str::<Value>(stdout.lines().last().unwrap_or("")) {
        Ok(v) => (v["ok"] == true, v["err"].as_str().unwrap_or("").to_string(), 0),
        Err(_) => (false, format!("worker crashed: {:?} {}", out.status, String::from_utf8_lossy(&out.stderr).chars().take(300).collect::<String>()), 0),
    }
}

/// prepare the state the operation starts from; returns false if the setup itself failed (pair discarded)
fn prepare(pair: &Pair, template: &Path) -> bool {
    let _ = fsutil::force_remove(template);
    match pair {
        Pair::Struct { setup, .. } | Pair::Trait { setup, .. } => {
            let o = c01::run_history_in(template, setup, &c01::NAMES[..3], false);
            let d = bprun::dirs(template);
            let _ = std::fs::create_dir_all(&d.platform);
            o.fail.is_none()
        }
        Pair::Detect { plan_exists, .. } => {
            let d = bprun::setup_dirs(template);
            std::fs::write(d.buildpack.join("buildpack.toml"), VALID_BUILDPACK_TOML).unwrap();
            std::fs::create_dir_all(d.platform.join("env")).unwrap();
            std::fs::write(d.platform.join("env/FOO"), b"bar").unwrap();
            if *plan_exists {
                std::fs::write(&d.plan, b"# stale\n").unwrap();
            }
            true
        }
        Pair::Build { store_in, platform_files, .. } => {
            let d = bprun::setup_dirs(template);
            std::fs::write(d.buildpack.join("buildpack.toml"), VALID_BUILDPACK_TOML).unwrap();
            std::fs::create_dir_all(d.platform.join("env")).unwrap();
            for i in 0..*platform_files {
                std::fs::write(d.platform.join(format!("env/VAR{i}")), format!("value{i}")).unwrap();
            }
            std::fs::write(&d.plan, "[[entries]]\nname = \"x\"\n\n[entries.metadata]\nk = 1\n").unwrap();
            if *store_in {
                std::fs::write(d.layers.join("store.toml"), "[metadata]\nold = true\n").unwrap();
            }
            true
        }
    }
}

struct PairOutcome {
    /// delivered faults by (errno name, call)
    by_kind: std::collections::BTreeMap<String, u64>,
    runs: u64,
    delivered: u64,
    nontrivial: Vec<u64>,
    reported: u64,
    harmless: u64,
    positions: usize,
    discarded: Option<String>,
    inconclusive: Option<String>,
    fail: Option<(Fail, Value)>,
    sample: Option<Value>,
}

fn mutating_or_read(call: &str) -> bool {
    // "<n> <call> <path>"
    let c = call.split_whitespace().nth(1).unwrap_or("");
    matches!(c, "open" | "openw" | "openat" | "creat" | "read" | "write" | "mkdir" | "unlink" | "rmdir" | "rename" | "chmod" | "symlink" | "readdir" | "opendir")
}

fn check_pair(scratch: &Path, pair: &Pair, idx: usize) -> PairOutcome {
    let mut out = PairOutcome { by_kind: Default::default(), runs: 0, delivered: 0, nontrivial: vec![], reported: 0, harmless: 0, positions: 0, discarded: None, inconclusive: None, fail: None, sample: None };
    let base = scratch.join(format!("p{idx}-{:012x}", hash_of(&pair_json(pair).to_string()) & 0xffff_ffff_ffff));
    let template = base.join("template");
    let run_root = base.join("run");
    if !prepare(pair, &template) {
        out.discarded = Some("setup history failed".into());
        let _ = fsutil::force_remove(&base);
        return out;
    }
    let before = {
        let d = bprun::dirs(&template);
        fsutil::snapshot(&d.layers)
    };
    let r0 = execute(pair, &template, &run_root, 0, 5);
    out.runs += 1;
    if !r0.claimed_success {
        out.discarded = Some(format!("fault-free run does not succeed: {}", r0.detail));
        let _ = fsutil::force_remove(&base);
        return out;
    }
    let changes_dir = {
        let mut s = r0.snapshot.clone();
        s.remove(&b"<plan file>".to_vec());
        s != before
    } || matches!(pair, Pair::Detect { .. });
    out.positions = r0.calls.len();
    'outer: for k in 1..=r0.calls.len() {
        for (errno, ename) in ERRNOS {
            if errno == 2 && !enoent_candidate(&r0.calls[k - 1]) {
                continue;
            }
            let r = execute(pair, &template, &run_root, k, errno);
            out.runs += 1;
            if errno == 2 && !r.fault.as_deref().is_some_and(enoent_candidate) {
                // call order differs from the recorded run at this position: not a sound ENOENT site
                continue;
            }
            let Some(fault) = &r.fault else {
                // the k-th call was not reached (e.g. an earlier, differently ordered call sequence) — order may differ
                // between runs (hash maps), the count must not
                // (the number of calls may differ slightly between runs where hash-map order decides how far an operation that
                // is EXPECTED to fail gets; all positions of the fault-free run are still enumerated)
                continue;
            };
            out.delivered += 1;
            *out.by_kind.entry(format!("fault:{ename}:{}", fault.split_whitespace().nth(1).unwrap_or("?"))).or_insert(0) += 1;
            if changes_dir && mutating_or_read(fault) {
                out.nontrivial.push(hash_of(&(pair_json(pair).to_string(), k, errno)));
            }
            if r.claimed_success {
                if r.snapshot != r0.snapshot {
                    let d = fsutil::diff(&r0.snapshot, &r.snapshot, 5);
                    let call = fault.split_whitespace().nth(1).unwrap_or("?").to_string();
                    out.fail = Some((
                        Fail::new(format!("C12:success-despite-failed-{call}"), format!("call #{fault} failed with {ename} but the operation reported success and the directory differs from a successful run: {d:?}")),
                        json!({"pair": pair_json(pair), "k": k, "errno": errno}),
                    ));
                    break 'outer;
                }
                out.harmless += 1;
            } else {
                out.reported += 1;
                if matches!(pair, Pair::Detect { .. } | Pair::Build { .. }) && r.on_error != 1 {
                    out.fail = Some((Fail::new("C12:failure-not-reported-through-error-handler", format!("call #{fault} failed with {ename}: {} (on_error ran {} times)", r.detail, r.on_error)), json!({"pair": pair_json(pair), "k": k, "errno": errno})));
                    break 'outer;
                }
            }
            if out.sample.is_none() && k == r0.calls.len() / 2 + 1 {
                out.sample = Some(json!({"pair": pair_json(pair), "matching_calls_of_the_fault_free_run": r0.calls, "example_fault": fault, "errno": ename, "operation_reported": if r.claimed_success { "success (directory identical to a successful run)" } else { "error" }}));
            }
        }
    }
    let _ = fsutil::force_remove(&base);
    out
}

pub fn run(ctx: &Ctx) {
    ctx.set_rule("(prepared state, operation) pairs: struct API (state prepared by a generated build history + lifecycle restore; operation = one cached/uncached request with callbacks deciding keep/delete/replace-metadata, followed by LayerRef writes of metadata/env (4 scopes)/SBOMs/exec.d, in one class after an exec.d write that failed on a missing source file), trait API (handle_layer with create/update/keep/recreate/migrate on the same prepared states, plus a class where an existing layer with an environment is updated by a callback returning the env it was handed), and the real buildpack executable (detect writing a build plan; build reading platform/plan/store, running layer operations and writing launch.toml, store.toml, build/launch SBOMs). Plus faults that need no injection: an env entry of an existing layer that is a dangling symbolic link, read through LayerEnv::read_from_layer_dir, LayerRef::read_env and handle_layer — each must report an error. Each pair runs in a fresh process under an LD_PRELOAD shim: pass 0 records the sequence of matching libc calls under <layers>, the plan file and <platform> (open/openat/creat, read, write/writev/copy_file_range, mkdir, unlink, rmdir, rename, chmod/fchmod, symlink, opendir/readdir); then for EVERY position k x errno in {EIO, EACCES, ENOSPC} (and ENOENT at creating/writing opens, mkdir, symlink and at read-only opens inside env directories — not at deletions (incl. the chmod that precedes them), listings or optional files, where NotFound legitimately means absent) the pair is re-run from the same prepared state with the k-th call failing. Oracle: if the call (or phase) reports success although the fault was delivered, the lstat snapshot of <layers> and the plan file must equal the fault-free run's; a failing phase must have run the error handler exactly once. Non-trivial: fault delivered at a mutating call or data read of a pair whose fault-free run changes the directory; distinct = hash of (pair, k, errno).");
    ctx.assume("single faults; stat-family calls are never failed, ENOENT is never injected; close/fsync are not injected; calls made inside glibc without going through an interposable symbol are out of reach");
    ctx.assume("positions are those of the recorded fault-free run; a position that is not reached in a re-run (call order depends on hash-map iteration) is skipped");
    if !shim_path().exists() {
        ctx.inconclusive("shim/faultfs.so has not been built (run ./setup.sh)");
        return;
    }
    let scratch = Scratch::new("c12");
    for (_p, v) in ctx.regress_files() {
        replay(ctx, "", &v["case"]);
    }
    natural_faults(ctx, &scratch.path);
    let n = ctx.tier.pick(256, 4000);
    let pairs: Vec<(usize, Pair)> = ctx.generate("pairs", &pair_strategy(), n).into_iter().enumerate().collect();
    let outs = par_map(&pairs, ncpu(), |(i, p)| check_pair(&scratch.path, p, *i));
    for ((_, p), o) in pairs.iter().zip(outs) {
        ctx.eval_n(o.runs);
        ctx.class(match p {
            Pair::Struct { .. } => "pair:struct-api",
            Pair::Trait { .. } => "pair:trait-api",
            Pair::Detect { .. } => "pair:detect",
            Pair::Build { .. } => "pair:build",
        });
        ctx.class_n("fault-positions", o.positions as u64);
        ctx.class_n("faults-delivered", o.delivered);
        for (k, n) in &o.by_kind {
            ctx.class_n(k, *n);
        }
        ctx.class_n("outcome:reported-as-error", o.reported);
        ctx.class_n("outcome:success-with-identical-directory", o.harmless);
        for h in o.nontrivial {
            ctx.nontrivial(h);
        }
        if let Some(d) = o.discarded {
            ctx.class("pair-discarded");
            ctx.extra("last_discard_reason", json!(d));
        }
        if let Some(s) = o.sample {
            ctx.sample(3, || s);
        }
        if let Some(i) = o.inconclusive {
            ctx.inconclusive(i);
        }
        if let Some((f, case)) = o.fail {
            ctx.check_case("fault", Err(f), || case);
        }
    }
}

/// Faults that need no injection: an environment entry of an existing layer that cannot be read (a dangling symbolic
/// link where a variable file is expected). Every way of reading that layer's environment has to report it.
fn natural_faults(ctx: &Ctx, scratch: &Path) {
    #![allow(deprecated)]
    use libcnb::layer_env::LayerEnv;
    let placements: [(&str, &str); 4] = [("env", "X.override"), ("env.build", "Y.append"), ("env.launch", "Z"), ("env.launch/web", "W.default")];
    for (pi, (dir, file)) in placements.iter().enumerate() {
        for route in 0..3 {
            ctx.eval();
            ctx.class("natural-fault:dangling-link-as-env-entry");
            let root = scratch.join(format!("natural-{pi}-{route}"));
            let _ = fsutil::force_remove(&root);
            let layer = root.join("layers/lay");
            std::fs::create_dir_all(layer.join(dir)).unwrap();
            std::fs::create_dir_all(layer.join("env")).unwrap();
            std::fs::write(layer.join("env/GOOD.override"), b"fine").unwrap();
            std::os::unix::fs::symlink("/nonexistent/verif/target", layer.join(dir).join(file)).unwrap();
            std::fs::write(root.join("layers/lay.toml"), "[types]\nbuild = true\nlaunch = true\ncache = true\n").unwrap();
            let bc = crate::layermodel::make_context(&root);
            let name: libcnb::data::layer::LayerName = "lay".parse().unwrap();
            let reported: Result<(), String> = match route {
                0 => LayerEnv::read_from_layer_dir(&layer).map(|_| ()).map_err(|e| e.to_string()),
                1 => bc
                    .cached_layer(&name, libcnb::layer::CachedLayerDefinition { build: true, launch: true, invalid_metadata_action: &|_| libcnb::layer::InvalidMetadataAction::DeleteLayer, restored_layer_action: &|_: &libcnb::generic::GenericMetadata, _| libcnb::layer::RestoredLayerAction::KeepLayer })
                    .map_err(|e| format!("{e:?}"))
                    .and_then(|lr| lr.read_env().map(|_| ()).map_err(|e| format!("{e:?}"))),
                _ => bc.handle_layer(name, crate::props::c10::KeepIt).map(|_| ()).map_err(|e| format!("{e:?}")),
            };
            let r = match reported {
                Err(_) => Ok(()),
                Ok(()) => Err(Fail::new("C12:unreadable-env-entry-not-reported", format!("{dir}/{file} is a dangling symbolic link; reading the layer's environment through {} reported success", ["LayerEnv::read_from_layer_dir", "cached_layer(..Keep).read_env()", "handle_layer(..Keep)"][route]))),
            };
            let _ = fsutil::force_remove(&root);
            if !ctx.check_case("natural", r, || json!({"natural": {"dir": dir, "file": file, "route": route}})) {
                return;
            }
        }
    }
}

pub fn replay(ctx: &Ctx, _sub: &str, case: &Value) {
    if case.get("natural").is_some() {
        let scratch = Scratch::new("c12n");
        natural_faults(ctx, &scratch.path);
        return;
    }
    let scratch = Scratch::new("c12r");
    let pair = pair_from_json(&case["pair"]);
    let o = check_pair(&scratch.path, &pair, 0);
    ctx.eval_n(o.runs);
    if let Some(i) = o.inconclusive {
        ctx.inconclusive(i);
    }
    if let Some((f, c)) = o.fail {
        ctx.check_case("fault", Err(f), || c);
    }
}
