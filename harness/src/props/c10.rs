//! C10 — implicit layer paths: from directories, build/launch only, never persisted.
#![allow(deprecated)]

use crate::core::{Check, Ctx, Fail, Scratch, hash_of, pick_idx};
use crate::envmodel::*;
use crate::fsutil;
use libcnb::layer_env::LayerEnv;
use proptest::prelude::*;
use serde_json::{Value, json};
use std::os::unix::ffi::OsStrExt;
use std::path::Path;

#[derive(Clone, Copy, Debug, PartialEq, Eq, Hash)]
pub enum PK {
    Absent,
    Dir,
    File,
    LinkDir,
    LinkFile,
    Dangling,
}
const PKS: [PK; 6] = [PK::Absent, PK::Dir, PK::File, PK::LinkDir, PK::LinkFile, PK::Dangling];
const SPECIAL: [&str; 4] = ["bin", "lib", "include", "pkgconfig"];
const VARS: [&str; 5] = ["PATH", "LD_LIBRARY_PATH", "LIBRARY_PATH", "CPATH", "PKG_CONFIG_PATH"];

fn place(layer: &Path, outside: &Path, name: &str, k: PK, variant: usize) {
    let p = layer.join(name);
    match k {
        PK::Absent => {}
        PK::Dir => {
            std::fs::create_dir(&p).unwrap();
            std::fs::write(p.join("content"), b"x").unwrap();
        }
        PK::File => std::fs::write(&p, b"i am a file").unwrap(),
        PK::LinkDir => {
            // alternate between a relative target inside the layer and an absolute one outside
            if variant % 2 == 0 {
                std::fs::create_dir_all(layer.join("real").join(name)).unwrap();
                std::os::unix::fs::symlink(format!("real/{name}"), &p).unwrap();
            } else {
                std::fs::create_dir_all(outside.join(name)).unwrap();
                std::os::unix::fs::symlink(outside.join(name), &p).unwrap();
            }
        }
        PK::LinkFile => {
            std::fs::write(layer.join(format!("file-{name}")), b"f").unwrap();
            std::os::unix::fs::symlink(format!("file-{name}"), &p).unwrap();
        }
        PK::Dangling => std::os::unix::fs::symlink("does/not/exist", &p).unwrap(),
    }
}

fn is_dir_kind(k: PK) -> bool {
    matches!(k, PK::Dir | PK::LinkDir)
}

fn implicit_for(layer: &Path, assign: [PK; 4]) -> Vec<Implicit> {
    let p = |n: &str| layer.join(n).as_os_str().as_bytes().to_vec();
    let mut v = vec![];
    if is_dir_kind(assign[0]) {
        v.push((Sc::Build, "PATH", p("bin")));
        v.push((Sc::Launch, "PATH", p("bin")));
    }
    if is_dir_kind(assign[1]) {
        v.push((Sc::Build, "LD_LIBRARY_PATH", p("lib")));
        v.push((Sc::Build, "LIBRARY_PATH", p("lib")));
        v.push((Sc::Launch, "LD_LIBRARY_PATH", p("lib")));
    }
    if is_dir_kind(assign[2]) {
        v.push((Sc::Build, "CPATH", p("include")));
    }
    if is_dir_kind(assign[3]) {
        v.push((Sc::Build, "PKG_CONFIG_PATH", p("pkgconfig")));
    }
    v
}

fn entry_strategy() -> impl Strategy<Value = EnvEntry> {
    (
        prop_oneof![2 => Just(Sc::All), 3 => Just(Sc::Build), 3 => Just(Sc::Launch), 2 => Just(Sc::Process("web".into()))],
        any::<u16>(),
        any::<u16>(),
        // "<L>/x" is replaced by the layer's own <layer>/x path when the case is laid out
        prop_oneof![3 => Just(b"/explicit".to_vec()), 1 => Just(vec![]), 2 => Just(b":".to_vec()), 1 => Just(b";".to_vec()), 2 => Just(b"/a:/b".to_vec()), 1 => Just(b"<L>/bin".to_vec()), 1 => Just(b"<L>/lib".to_vec()), 1 => Just(b"<L>/bin:/usr/bin".to_vec()), 1 => Just(b"<L>/include".to_vec()), 1 => Just(b"<L>/pkgconfig".to_vec())],
    )
        .prop_map(|(scope, b, n, value)| EnvEntry { scope, beh: BEHS[pick_idx(b, 5)], name: VARS[pick_idx(n, 5)].as_bytes().to_vec(), value })
}

fn env0s() -> Vec<EnvMap> {
    let mut all = EnvMap::new();
    let mut empty = EnvMap::new();
    for v in VARS {
        all.insert(v.as_bytes().to_vec(), format!("/orig/{v}").into_bytes());
        empty.insert(v.as_bytes().to_vec(), vec![]);
    }
    vec![all, EnvMap::new(), empty]
}

fn env_snapshot(layer: &Path) -> std::collections::BTreeMap<Vec<u8>, Vec<u8>> {
    // regular files below the env directories (empty directories are equivalent to absent ones)
    let mut out = std::collections::BTreeMap::new();
    for (p, e) in fsutil::snapshot(layer) {
        let s = String::from_utf8_lossy(&p).to_string();
        if (s.starts_with("env/") || s.starts_with("env.build/") || s.starts_with("env.launch/")) && e.kind != fsutil::Kind::Dir {
            out.insert(p, e.data);
        }
    }
    out
}

fn case_json(assign: [PK; 4], variant: usize, entries: &[EnvEntry], cycles: usize) -> Value {
    json!({"assign": assign.iter().map(|k| PKS.iter().position(|x| x == k).unwrap()).collect::<Vec<_>>(), "variant": variant, "entries": entries_to_json(entries), "cycles": cycles})
}

fn subst(v: &[u8], layer: &Path) -> Vec<u8> {
    let l = layer.as_os_str().as_bytes();
    let mut out = vec![];
    let mut i = 0;
    while i < v.len() {
        if v[i..].starts_with(b"<L>") {
            out.extend_from_slice(l);
            i += 3;
        } else {
            out.push(v[i]);
            i += 1;
        }
    }
    out
}

fn check(ctx: &Ctx, scratch: &Path, assign: [PK; 4], variant: usize, entries_in: &[EnvEntry], cycles: usize) -> Check {
    let root = scratch.join(format!("c-{:016x}", hash_of(&case_json(assign, variant, entries_in, cycles).to_string())));
    let _ = fsutil::force_remove(&root);
    let layer = root.join("layers/my layer");
    let entries_owned: Vec<EnvEntry> = entries_in.iter().map(|e| EnvEntry { value: subst(&e.value, &layer), ..e.clone() }).collect();
    let entries = &entries_owned[..];
    let outside = root.join("outside");
    std::fs::create_dir_all(&layer).unwrap();
    std::fs::create_dir_all(&outside).unwrap();
    for (i, n) in SPECIAL.iter().enumerate() {
        place(&layer, &outside, n, assign[i], variant + i);
    }
    // explicit entries rendered by the harness (spec layout), not by libcnb
    for (rel, data) in render(entries) {
        let p = layer.join(fsutil::path_from_bytes(&rel));
        std::fs::create_dir_all(p.parent().unwrap()).unwrap();
        std::fs::write(p, data).unwrap();
    }
    let implicit = implicit_for(&layer, assign);
    // every third case is also read through the two layer APIs; that needs a content-metadata file (refreshed by them)
    let api_reads = (variant + cycles) % 3 == 0;
    if api_reads {
        std::fs::create_dir_all(root.join("app")).unwrap();
        std::fs::create_dir_all(root.join("buildpack")).unwrap();
        std::fs::write(root.join("layers/my layer.toml"), "[types]\nbuild = true\nlaunch = true\ncache = true\n").unwrap();
    }
    let before_env = env_snapshot(&layer);
    let before_all = fsutil::snapshot(&root);
    let r = (|| -> Check {
        let read = LayerEnv::read_from_layer_dir(&layer).map_err(|e| Fail::new("C10:read-failed", e.to_string()))?;
        let mut starts = env0s();
        let mut own = EnvMap::new();
        for (v, d) in [("PATH", "bin"), ("LD_LIBRARY_PATH", "lib"), ("LIBRARY_PATH", "lib"), ("CPATH", "include"), ("PKG_CONFIG_PATH", "pkgconfig")] {
            own.insert(v.as_bytes().to_vec(), [layer.join(d).as_os_str().as_bytes(), b":/usr/local"].concat());
        }
        starts.push(own);
        let compare = |read: &LayerEnv, via: &str| -> Check {
            for q in [Sc::All, Sc::Build, Sc::Launch, Sc::Process("web".into()), Sc::Process("other".into())] {
                for e0 in starts.clone() {
                    ctx.eval();
                    let got = from_env(&read.apply(q.to_libcnb(), &to_env(&e0)));
                    let want = ref_apply(entries, &implicit, &q, &e0);
                    if got != want {
                        // classify
                        let want_no_implicit = ref_apply(entries, &[], &q, &e0);
                        let sig = if got == want_no_implicit {
                            "C10:implicit-entry-missing"
                        } else if matches!(q, Sc::All | Sc::Process(_)) {
                            "C10:implicit-entry-in-wrong-scope"
                        } else {
                            "C10:apply-differs"
                        };
                        return Err(Fail::new(sig, format!("read through {via}: scope {q:?} env0 {}: got {} want {}", envmap_to_json(&e0), envmap_to_json(&got), envmap_to_json(&want))));
                    }
                }
            }
            Ok(())
        };
        compare(&read, "LayerEnv::read_from_layer_dir")?;
        if api_reads {
            // the same layer read through the two layer APIs (a kept, restored layer): LayerRef::read_env and LayerData::env
            let bc = crate::layermodel::make_context(&root);
            let name: libcnb::data::layer::LayerName = "my layer".parse().unwrap();
            let lr = bc
                .cached_layer(&name, libcnb::layer::CachedLayerDefinition { build: true, launch: true, invalid_metadata_action: &|_| libcnb::layer::InvalidMetadataAction::DeleteLayer, restored_layer_action: &|_: &libcnb::generic::GenericMetadata, _| libcnb::layer::RestoredLayerAction::KeepLayer })
                .map_err(|e| Fail::new("C10:cached-layer-failed", format!("{e:?}")))?;
            ensure!(matches!(lr.state, libcnb::layer::LayerState::Restored { .. }), "harness:c10-layer-not-restored", "{:?}", lr.state);
            let via_ref = lr.read_env().map_err(|e| Fail::new("C10:read-failed", format!("LayerRef::read_env: {e:?}")))?;
            compare(&via_ref, "LayerRef::read_env")?;
            let data = bc.handle_layer(name, KeepIt).map_err(|e| Fail::new("C10:handle-layer-failed", format!("{e:?}")))?;
            compare(&data.env, "handle_layer(..).env")?;
        }
        // read -> write cycles: env directories are a fixpoint and nothing else changes
        let mut cur = read;
        for c in 0..cycles {
            cur.write_to_layer_dir(&layer).map_err(|e| Fail::new("C10:write-failed", e.to_string()))?;
            let after = env_snapshot(&layer);
            if after != before_env {
                let added: Vec<String> = after.keys().filter(|k| !before_env.contains_key(*k)).map(|k| fsutil::show_path(k)).collect();
                let sig = if !added.is_empty() { "C10:implicit-entry-persisted" } else { "C10:env-dirs-changed-by-rewrite" };
                return Err(Fail::new(sig, format!("cycle {c}: added {added:?}; before {} files, after {} files", before_env.len(), after.len())));
            }
            cur = LayerEnv::read_from_layer_dir(&layer).map_err(|e| Fail::new("C10:read-failed", e.to_string()))?;
        }
        // read -> insert further explicit entries through the public API -> write: the env directories must hold exactly the
        // union (later inserts win), nothing derived from the implicit entries
        if variant % 2 == 1 {
            let extra: Vec<EnvEntry> = entries.iter().take(3).enumerate().map(|(i, e)| EnvEntry { scope: if i % 2 == 0 { Sc::Build } else { Sc::Launch }, beh: if i % 2 == 0 { Beh::Append } else { Beh::Prepend }, name: VARS[(i + variant) % VARS.len()].as_bytes().to_vec(), value: [b"/inserted-".to_vec(), e.name.clone()].concat() }).chain(std::iter::once(EnvEntry { scope: Sc::Build, beh: Beh::Prepend, name: b"PATH".to_vec(), value: b"/inserted-after-read".to_vec() })).collect();
            for e in &extra {
                cur.insert(e.scope.to_libcnb(), e.beh.to_libcnb(), os(&e.name), os(&e.value));
            }
            cur.write_to_layer_dir(&layer).map_err(|e| Fail::new("C10:write-failed", e.to_string()))?;
            let mut all = entries.to_vec();
            all.extend(extra.iter().cloned());
            let want: std::collections::BTreeMap<Vec<u8>, Vec<u8>> = render(&all);
            let got = env_snapshot(&layer);
            if got != want {
                let added: Vec<String> = got.keys().filter(|k| !want.contains_key(*k)).map(|k| fsutil::show_path(k)).collect();
                let sig = if !added.is_empty() { "C10:implicit-entry-persisted" } else { "C10:env-dirs-differ-after-insert" };
                return Err(Fail::new(sig, format!("after read -> insert -> write: unexpected files {added:?}; {} files on disk, {} expected", got.len(), want.len())));
            }
            // restore the explicit files for the final outside-content comparison
        }
        // everything outside the env directories untouched
        let after_all = fsutil::snapshot(&root);
        let d: Vec<String> = fsutil::diff(&before_all, &after_all, 50)
            .into_iter()
            .filter(|l| !(l.contains("/env\"") || l.contains("/env/") || l.contains("/env.build") || l.contains("/env.launch") || l.contains("my layer.toml")))
            .collect();
        ensure!(d.is_empty(), "C10:rewrite-touches-other-content", "{d:?}");
        Ok(())
    })();
    let _ = fsutil::force_remove(&root);
    r
}

pub struct KeepIt;
impl libcnb::layer::Layer for KeepIt {
    type Buildpack = crate::layermodel::HB;
    type Metadata = libcnb::generic::GenericMetadata;
    fn types(&self) -> libcnb::data::layer_content_metadata::LayerTypes {
        libcnb::data::layer_content_metadata::LayerTypes { build: true, launch: true, cache: true }
    }
    fn create(&mut self, _c: &libcnb::build::BuildContext<crate::layermodel::HB>, _p: &Path) -> Result<libcnb::layer::LayerResult<Self::Metadata>, <crate::layermodel::HB as libcnb::Buildpack>::Error> {
        libcnb::layer::LayerResultBuilder::new(None).build()
    }
    fn existing_layer_strategy(&mut self, _c: &libcnb::build::BuildContext<crate::layermodel::HB>, _d: &libcnb::layer::LayerData<Self::Metadata>) -> Result<libcnb::layer::ExistingLayerStrategy, <crate::layermodel::HB as libcnb::Buildpack>::Error> {
        Ok(libcnb::layer::ExistingLayerStrategy::Keep)
    }
}

fn nontrivial(assign: [PK; 4], entries: &[EnvEntry]) -> bool {
    let var_of = [vec!["PATH"], vec!["LD_LIBRARY_PATH", "LIBRARY_PATH"], vec!["CPATH"], vec!["PKG_CONFIG_PATH"]];
    (0..4).any(|i| is_dir_kind(assign[i]) && entries.iter().any(|e| var_of[i].iter().any(|v| v.as_bytes() == &e.name[..])))
}

pub fn run(ctx: &Ctx) {
    ctx.set_rule("EXHAUSTIVE: all 6^4 = 1296 assignments of {absent, directory, file, symlink->dir (relative inside / absolute outside), symlink->file, dangling symlink} to bin, lib, include, pkgconfig; each combined with K generated sets (K=6 quick, 60 thorough) of 0..6 explicit entries on PATH, LD_LIBRARY_PATH, LIBRARY_PATH, CPATH, PKG_CONFIG_PATH (all behaviours incl. own delimiter, scopes all/build/launch/process) laid out on disk by the harness and read through LayerEnv::read_from_layer_dir and, in every third case, also through LayerRef::read_env (struct API, kept restored layer) and handle_layer(..).env (trait API, keep); applied for scopes all, build, launch, process web, process other to three starting envs (all defined / none / empty strings); (values also the layer's own <layer>/bin etc.), also to a starting env whose path lists begin with the layer's own directories; then 1..4 read->write cycles and, in every other case, read -> insert further entries -> write. Oracle: reference apply with implicit prepend (':' only when the previous value is non-empty) for build (5 variables) and launch (2 variables) iff the path is a directory following links; env-directory file set after every cycle equals the initial one; nothing else changes. Non-trivial: some special path is a directory or symlink->dir AND an explicit entry exists on its variable; distinct = hash of (assignment, entries).");
    ctx.set_exhaustive(true);
    ctx.extra("exhaustive_subspace", json!("the 1296 path-kind assignments; explicit entry sets are sampled"));
    let scratch = Scratch::new("c10");
    for (_p, v) in ctx.regress_files() {
        replay(ctx, "", &v["case"]);
    }
    let k = ctx.tier.pick(6, 60);
    let sets: Vec<Vec<EnvEntry>> = ctx.generate("entry-sets", &proptest::collection::vec(entry_strategy(), 0..7), 1296 * k);
    let mut idx = 0;
    'outer: for a in 0..6 {
        for b in 0..6 {
            for c in 0..6 {
                for d in 0..6 {
                    let assign = [PKS[a], PKS[b], PKS[c], PKS[d]];
                    for j in 0..k {
                        let entries = &sets[idx];
                        idx += 1;
                        let cycles = 1 + (idx % 4);
                        ctx.class("assignment x entry-set");
                        if nontrivial(assign, entries) {
                            ctx.nontrivial(hash_of(&(assign, entries)));
                            if ctx.samples_len() < 2 || idx % 311 == 0 {
                                ctx.sample(6, || case_json(assign, j, entries, cycles));
                            }
                        }
                        if entries.iter().any(|e| matches!(e.scope, Sc::Process(_))) {
                            ctx.class("has-process-scope-entry");
                        }
                        if !ctx.check_case("assign", check(ctx, &scratch.path, assign, j, entries, cycles), || case_json(assign, j, entries, cycles)) {
                            break 'outer;
                        }
                    }
                }
            }
        }
    }
}

pub fn replay(ctx: &Ctx, _sub: &str, case: &Value) {
    let scratch = Scratch::new("c10r");
    let a: Vec<usize> = case["assign"].as_array().unwrap().iter().map(|x| x.as_u64().unwrap() as usize).collect();
    let assign = [PKS[a[0]], PKS[a[1]], PKS[a[2]], PKS[a[3]]];
    let entries = entries_from_json(&case["entries"]);
    ctx.check_case("assign", check(ctx, &scratch.path, assign, case["variant"].as_u64().unwrap() as usize, &entries, case["cycles"].as_u64().unwrap() as usize), || case.clone());
}
