//! C04 — applying a layer environment follows the CNB modification rules exactly.

use crate::core::{Check, Ctx, Fail, hash_of, pick_idx};
use crate::envmodel::*;
use proptest::prelude::*;
use serde_json::{Value, json};

fn scopes4() -> Vec<Sc> {
    vec![Sc::All, Sc::Build, Sc::Launch, Sc::Process("web".into())]
}
fn queries5() -> Vec<Sc> {
    vec![
        Sc::All,
        Sc::Build,
        Sc::Launch,
        Sc::Process("web".into()),
        Sc::Process("other".into()),
    ]
}

fn case_json(entries: &[EnvEntry], query: &Sc, env0: &EnvMap) -> Value {
    json!({"entries": entries_to_json(entries), "query": query.to_json(), "env0": envmap_to_json(env0)})
}

/// The oracle for one (entries, query, env0) triple.
pub fn check_one(entries: &[EnvEntry], query: &Sc, env0: &EnvMap) -> Check {
    let le = to_layer_env(entries);
    let env_in = to_env(env0);
    let env_in_clone = env_in.clone();
    let got = from_env(&le.apply(query.to_libcnb(), &env_in));
    let want = ref_apply(entries, &[], query, env0);
    if got != want {
        // classify for signature
        return Err(Fail::new(
            "C04:apply-differs-from-reference",
            format!(
                "apply({:?}) got {:?} want {:?}",
                query,
                envmap_to_json(&got).to_string(),
                envmap_to_json(&want).to_string()
            ),
        ));
    }
    ensure!(
        env_in == env_in_clone && from_env(&env_in) == *env0,
        "C04:input-env-modified",
        "input Env changed by apply"
    );
    // variables without entries unchanged (implied by reference equality, asserted separately for clarity)
    for (k, v) in env0 {
        let touched = entries.iter().any(|e| &e.name == k);
        if !touched {
            ensure!(
                got.get(k) == Some(v),
                "C04:untouched-variable-changed",
                "variable {:?} has no entries but changed",
                String::from_utf8_lossy(k)
            );
        }
    }
    // apply_to_empty == apply on empty
    if env0.is_empty() {
        let e2 = from_env(&le.apply_to_empty(query.to_libcnb()));
        ensure!(e2 == want, "C04:apply-to-empty-differs", "apply_to_empty differs from apply(empty)");
    }
    Ok(())
}

fn nontrivial(entries: &[EnvEntry], query: &Sc, env0: &EnvMap) -> bool {
    // entries effective for the query
    let eff: Vec<&EnvEntry> = entries
        .iter()
        .filter(|e| e.scope == Sc::All || (&e.scope == query))
        .collect();
    for (i, a) in eff.iter().enumerate() {
        if env0.get(&a.name).map(|v| v.is_empty()).unwrap_or(false) {
            return true;
        }
        for b in &eff[i + 1..] {
            if a.name == b.name {
                return true;
            }
        }
    }
    false
}

/// Metamorphic: permutations of the insertion order of distinct keys give equal LayerEnv and equal results.
fn check_perm(entries: &[EnvEntry], perm: &[EnvEntry], query: &Sc, env0: &EnvMap) -> Check {
    let a = to_layer_env(entries);
    let b = to_layer_env(perm);
    // judged on the RESULT of applying (the statement's wording), not on structural equality of the two values
    let ra = from_env(&a.apply(query.to_libcnb(), &to_env(env0)));
    let rb = from_env(&b.apply(query.to_libcnb(), &to_env(env0)));
    ensure!(ra == rb, "C04:insertion-order-changes-result", "apply differs under permutation of inserts");
    Ok(())
}

fn all_env0() -> Vec<EnvMap> {
    let vals: [Option<&[u8]>; 4] = [None, Some(b""), Some(b"0"), Some(b"p:q")];
    let mut out = vec![];
    for a in vals {
        for b in vals {
            let mut m = EnvMap::new();
            if let Some(a) = a {
                m.insert(b"A".to_vec(), a.to_vec());
            }
            if let Some(b) = b {
                m.insert(b"B".to_vec(), b.to_vec());
            }
            out.push(m);
        }
    }
    out
}

fn all_single_entries() -> Vec<EnvEntry> {
    let mut out = vec![];
    for name in [b"A", b"B"] {
        for beh in BEHS {
            for scope in scopes4() {
                for value in [&b""[..], b"x", b"y:z"] {
                    out.push(EnvEntry {
                        scope: scope.clone(),
                        beh,
                        name: name.to_vec(),
                        value: value.to_vec(),
                    });
                }
            }
        }
    }
    out
}

fn same_key(a: &EnvEntry, b: &EnvEntry) -> bool {
    a.scope == b.scope && a.beh == b.beh && a.name == b.name
}

fn run_exhaustive(ctx: &Ctx, triples: bool) {
    let singles = all_single_entries();
    let env0s = all_env0();
    let queries = queries5();
    let eval = |entries: &[EnvEntry]| -> bool {
        for q in &queries {
            for e0 in &env0s {
                ctx.eval();
                let nt = nontrivial(entries, q, e0);
                if nt {
                    ctx.nontrivial(hash_of(&(entries, q, e0)));
                    ctx.sample(4, || case_json(entries, q, e0));
                }
                if !ctx.check_case("exhaustive", check_one(entries, q, e0), || case_json(entries, q, e0)) {
                    return false;
                }
            }
        }
        true
    };
    // empty + singles
    if !eval(&[]) {
        return;
    }
    for s in &singles {
        ctx.class("exhaustive:single");
        if !eval(std::slice::from_ref(s)) {
            return;
        }
    }
    // pairs with distinct keys
    for i in 0..singles.len() {
        for j in (i + 1)..singles.len() {
            if same_key(&singles[i], &singles[j]) {
                continue;
            }
            ctx.class("exhaustive:pair");
            let pair = [singles[i].clone(), singles[j].clone()];
            if !eval(&pair) {
                return;
            }
            let rev = [singles[j].clone(), singles[i].clone()];
            let q = &queries[(i + j) % queries.len()];
            let e0 = &env0s[(i * 7 + j) % env0s.len()];
            if !ctx.check_case("perm", check_perm(&pair, &rev, q, e0), || {
                json!({"entries": entries_to_json(&pair), "perm": entries_to_json(&rev), "query": q.to_json(), "env0": envmap_to_json(e0)})
            }) {
                return;
            }
        }
    }
    if triples {
        // triples over a reduced value alphabet (values "x" / "y:z" only where it matters): all distinct-key triples
        // with one value choice rotated deterministically — 40 keys -> C(40,3)=9880 key triples x 27 value combos
        let keys: Vec<(Sc, Beh, Vec<u8>)> = {
            let mut k = vec![];
            for name in [b"A", b"B"] {
                for beh in BEHS {
                    for scope in scopes4() {
                        k.push((scope, beh, name.to_vec()));
                    }
                }
            }
            k
        };
        let vals: [&[u8]; 3] = [b"", b"x", b"y:z"];
        for a in 0..keys.len() {
            for b in (a + 1)..keys.len() {
                for c in (b + 1)..keys.len() {
                    for vi in 0..27usize {
                        let mk = |k: &(Sc, Beh, Vec<u8>), v: usize| EnvEntry {
                            scope: k.0.clone(),
                            beh: k.1,
                            name: k.2.clone(),
                            value: vals[v].to_vec(),
                        };
                        let t = [mk(&keys[a], vi % 3), mk(&keys[b], (vi / 3) % 3), mk(&keys[c], vi / 9)];
                        ctx.class("exhaustive:triple");
                        // all queries, env0 rotated (16 env0 x 5 queries would be 2.1e7; use 4 env0 per triple)
                        for q in &queries {
                            for r in 0..4 {
                                let e0 = &env0s[(a + 3 * b + 5 * c + vi + r * 4) % env0s.len()];
                                ctx.eval();
                                if nontrivial(&t, q, e0) {
                                    ctx.nontrivial(hash_of(&(&t[..], q, e0)));
                                }
                                if !ctx.check_case("exhaustive3", check_one(&t, q, e0), || case_json(&t, q, e0)) {
                                    return;
                                }
                            }
                        }
                    }
                }
            }
        }
    }
}

#[derive(Clone, Debug)]
pub struct Sampled {
    pub entries: Vec<EnvEntry>,
    pub perm: Vec<u16>,
    pub query: Sc,
    pub env0: EnvMap,
}

pub fn name_pool() -> Vec<Vec<u8>> {
    vec![b"A".to_vec(), b"PATH".to_vec(), b"X.Y".to_vec(), vec![0xff, b'N', 0xfe]]
}
pub fn proc_pool() -> Vec<String> {
    vec!["web".into(), "worker".into(), "a.b-c_d".into()]
}

pub fn scope_strategy() -> impl Strategy<Value = Sc> {
    prop_oneof![
        Just(Sc::All),
        Just(Sc::Build),
        Just(Sc::Launch),
        any::<u16>().prop_map(|i| {
            let p = proc_pool();
            Sc::Process(p[pick_idx(i, p.len())].clone())
        }),
    ]
}

pub fn beh_strategy() -> impl Strategy<Value = Beh> {
    any::<u16>().prop_map(|i| BEHS[pick_idx(i, 5)])
}

fn value_strategy() -> impl Strategy<Value = Vec<u8>> {
    prop_oneof![
        3 => Just(vec![]),
        3 => Just(b":".to_vec()),
        6 => proptest::collection::vec(prop_oneof![Just(b'a'), Just(b':'), Just(b' '), Just(0u8), Just(b'\n'), Just(0xffu8), any::<u8>()], 0..6),
    ]
}

fn entry_strategy() -> impl Strategy<Value = EnvEntry> {
    (scope_strategy(), beh_strategy(), any::<u16>(), value_strategy()).prop_map(|(scope, beh, ni, value)| {
        let n = name_pool();
        EnvEntry {
            scope,
            beh,
            name: n[pick_idx(ni, n.len())].clone(),
            value,
        }
    })
}

fn sampled_strategy() -> impl Strategy<Value = Sampled> {
    (
        proptest::collection::vec(entry_strategy(), 0..13),
        proptest::collection::vec(any::<u16>(), 13),
        prop_oneof![
            scope_strategy(),
            Just(Sc::Process("unknown".into()))
        ],
        proptest::collection::vec((any::<u16>(), value_strategy()), 0..6),
    )
        .prop_map(|(entries, perm, query, e0)| {
            let n = name_pool();
            let mut env0 = EnvMap::new();
            for (i, v) in e0 {
                let mut names = n.clone();
                names.push(b"UNRELATED".to_vec());
                env0.insert(names[pick_idx(i, names.len())].clone(), v);
            }
            Sampled {
                entries,
                perm,
                query,
                env0,
            }
        })
}

fn sampled_json(s: &Sampled) -> Value {
    json!({"entries": entries_to_json(&s.entries), "perm": s.perm, "query": s.query.to_json(), "env0": envmap_to_json(&s.env0)})
}

fn sampled_from_json(v: &Value) -> Sampled {
    Sampled {
        entries: entries_from_json(&v["entries"]),
        perm: v["perm"]
            .as_array()
            .map(|a| a.iter().map(|x| x.as_u64().unwrap() as u16).collect())
            .unwrap_or_default(),
        query: Sc::from_json(&v["query"]),
        env0: envmap_from_json(&v["env0"]),
    }
}

fn check_sampled(ctx: &Ctx, s: &Sampled) -> Check {
    ctx.eval();
    let deduped = dedupe(&s.entries);
    if deduped.len() != s.entries.len() {
        ctx.class("sampled:duplicate-key-inserts");
    }
    if matches!(&s.query, Sc::Process(p) if p == "unknown") {
        ctx.class("sampled:unknown-process-query");
    }
    if nontrivial(&s.entries, &s.query, &s.env0) {
        ctx.class("sampled:nontrivial");
        ctx.nontrivial(hash_of(&(&s.entries, &s.query, &s.env0)));
        if ctx.samples_len() < 7 {
            ctx.sample(7, || sampled_json(s));
        }
    }
    check_one(&s.entries, &s.query, &s.env0)?;
    // metamorphic: permute the deduplicated (distinct-key) list
    let mut perm = deduped.clone();
    for (i, p) in s.perm.iter().enumerate() {
        if perm.len() > 1 {
            let j = pick_idx(*p, perm.len());
            let k = i % perm.len();
            perm.swap(k, j);
        }
    }
    check_perm(&deduped, &perm, &s.query, &s.env0)?;
    // dedupe (last wins) is itself part of the documented contract of insert
    let a = to_layer_env(&s.entries);
    let b = to_layer_env(&deduped);
    let ra = from_env(&a.apply(s.query.to_libcnb(), &to_env(&s.env0)));
    let rb = from_env(&b.apply(s.query.to_libcnb(), &to_env(&s.env0)));
    ensure!(ra == rb, "C04:duplicate-insert-not-last-wins", "insert of an existing key did not replace its value: results differ");
    Ok(())
}

pub fn run(ctx: &Ctx) {
    ctx.set_rule("exhaustive: every LayerEnv with 0,1,2 entries (distinct keys) over names {A,B} x 5 behaviours x scopes {all,build,launch,process web} x values {'', 'x', 'y:z'} applied for 5 query scopes (incl. unknown process) to all 16 starting envs over {A,B}x{unset,'','0','p:q'} (thorough: + all distinct-key triples); sampled: 0..12 entries over 4 names (incl. non-UTF-8, dotted), byte values, 3 process names, starting envs 0..5 vars. Oracle: reference apply written from the spec (per-variable fold), input-unchanged, permutation metamorphic. Non-trivial: >=2 effective entries touch the same variable, or a touched variable starts as the empty string; distinct = hash of (entries, query, env0).");
    ctx.assume("reference model of the CNB env modification rules (envmodel.rs) is a faithful transcription of the spec");
    ctx.set_exhaustive(true);
    ctx.extra("exhaustive_subspace", json!("entries<=2 over the stated alphabet; sampled part is not exhaustive"));
    for (p, v) in ctx.regress_files() {
        let s = sampled_from_json(&v["case"]);
        ctx.check_case("regress", check_sampled(ctx, &s), || json!({"regress": p}));
    }
    run_exhaustive(ctx, ctx.tier == crate::core::Tier::Thorough);
    let cases = ctx.tier.pick(100_000, 1_000_000);
    ctx.run_prop("sampled", sampled_strategy(), cases, sampled_json, |s| check_sampled(ctx, s));
}

pub fn replay(ctx: &Ctx, sub: &str, case: &Value) {
    if sub == "perm" {
        let e = entries_from_json(&case["entries"]);
        let p = entries_from_json(&case["perm"]);
        let q = Sc::from_json(&case["query"]);
        let e0 = envmap_from_json(&case["env0"]);
        ctx.eval();
        ctx.check_case(sub, check_perm(&e, &p, &q, &e0), || case.clone());
    } else {
        let s = sampled_from_json(case);
        ctx.check_case(sub, check_sampled(ctx, &s), || case.clone());
    }
}
