//! C08 — CNB documents are parsed strictly.

use crate::core::{Check, Ctx, Fail, hash_of, pick_idx};
use crate::tv::{TV, emit_doc, meta_table, nasty_string};
use libcnb_data::buildpack::{BuildpackDescriptor, ComponentBuildpackDescriptor, CompositeBuildpackDescriptor};
use libcnb_data::buildpack_plan::BuildpackPlan;
use libcnb_data::launch::{Launch, WorkingDirectory};
use libcnb_data::layer_content_metadata::LayerContentMetadata;
use libcnb_data::package_descriptor::{PackageDescriptor, PlatformOs};
use libcnb_data::sbom::SbomFormat;
use libcnb_data::store::Store;
use proptest::prelude::*;
use serde_json::{Value, json};

// ---------------------------------------------------------------------------------------------
// The harness's own description of the formats (from the CNB spec), independent of libcnb's structs
// ---------------------------------------------------------------------------------------------

#[derive(Clone, Copy, Debug, PartialEq)]
enum SK {
    Any,
    Api,
    Id,
    Version,
    ProcessType,
    Sbom,
    Uri,
    Os,
    /// a directory string other than "" and "." (both may legitimately be read as "the app directory")
    WorkDir,
    /// free text that is not empty (ids and names of stacks, targets and distributions)
    NonEmpty,
}

#[derive(Clone, Debug)]
enum Sch {
    Str(SK),
    Bool,
    StrArray(SK),
    Table(Vec<Field>),
    TableArray(Vec<Field>),
    Free,
}

#[derive(Clone, Debug)]
struct Field {
    key: &'static str,
    sch: Sch,
    req: bool,
    /// value a conforming reader assumes when the key is omitted (None = "absent")
    default: Option<TV>,
}

fn f(key: &'static str, sch: Sch, req: bool, default: Option<TV>) -> Field {
    Field { key, sch, req, default }
}

fn buildpack_table() -> Sch {
    Sch::Table(vec![
        f("id", Sch::Str(SK::Id), true, None),
        f("name", Sch::Str(SK::Any), false, None),
        f("version", Sch::Str(SK::Version), true, None),
        f("homepage", Sch::Str(SK::Any), false, None),
        f("clear-env", Sch::Bool, false, Some(TV::Bool(false))),
        f("description", Sch::Str(SK::Any), false, None),
        f("keywords", Sch::StrArray(SK::Any), false, Some(TV::Array(vec![]))),
        f("licenses", Sch::TableArray(vec![f("type", Sch::Str(SK::Any), false, None), f("uri", Sch::Str(SK::Any), false, None)]), false, Some(TV::Array(vec![]))),
        f("sbom-formats", Sch::StrArray(SK::Sbom), false, Some(TV::Array(vec![]))),
    ])
}

fn component_fields() -> Vec<Field> {
    vec![
        f("api", Sch::Str(SK::Api), true, None),
        f("buildpack", buildpack_table(), true, None),
        f("stacks", Sch::TableArray(vec![f("id", Sch::Str(SK::NonEmpty), true, None), f("mixins", Sch::StrArray(SK::Any), false, Some(TV::Array(vec![])))]), false, Some(TV::Array(vec![]))),
        f(
            "targets",
            Sch::TableArray(vec![
                f("os", Sch::Str(SK::NonEmpty), false, None),
                f("arch", Sch::Str(SK::NonEmpty), false, None),
                f("variant", Sch::Str(SK::NonEmpty), false, None),
                f("distros", Sch::TableArray(vec![f("name", Sch::Str(SK::NonEmpty), true, None), f("version", Sch::Str(SK::NonEmpty), true, None)]), false, Some(TV::Array(vec![]))),
            ]),
            false,
            Some(TV::Array(vec![])),
        ),
        f("metadata", Sch::Free, false, None),
    ]
}

fn composite_fields() -> Vec<Field> {
    vec![
        f("api", Sch::Str(SK::Api), true, None),
        f("buildpack", buildpack_table(), true, None),
        f(
            "order",
            Sch::TableArray(vec![f(
                "group",
                Sch::TableArray(vec![f("id", Sch::Str(SK::Id), true, None), f("version", Sch::Str(SK::Version), true, None), f("optional", Sch::Bool, false, Some(TV::Bool(false)))]),
                true,
                None,
            )]),
            true,
            None,
        ),
        f("metadata", Sch::Free, false, None),
    ]
}

#[derive(Clone, Copy, Debug, PartialEq, Eq, Hash)]
pub enum Ty {
    Component,
    Composite,
    DescriptorFromComponent,
    DescriptorFromComposite,
    Plan,
    Lcm,
    Launch,
    Store,
    Package,
}

const TYPES: [Ty; 9] = [Ty::Component, Ty::Composite, Ty::DescriptorFromComponent, Ty::DescriptorFromComposite, Ty::Plan, Ty::Lcm, Ty::Launch, Ty::Store, Ty::Package];

fn schema(ty: Ty) -> Vec<Field> {
    match ty {
        Ty::Component | Ty::DescriptorFromComponent => component_fields(),
        Ty::Composite | Ty::DescriptorFromComposite => composite_fields(),
        Ty::Plan => vec![f("entries", Sch::TableArray(vec![f("name", Sch::Str(SK::Any), true, None), f("metadata", Sch::Free, false, Some(TV::Table(vec![])))]), false, Some(TV::Array(vec![])))],
        Ty::Lcm => vec![
            f("types", Sch::Table(vec![f("launch", Sch::Bool, false, Some(TV::Bool(false))), f("build", Sch::Bool, false, Some(TV::Bool(false))), f("cache", Sch::Bool, false, Some(TV::Bool(false)))]), false, None),
            f("metadata", Sch::Free, false, None),
        ],
        Ty::Launch => vec![
            f("labels", Sch::TableArray(vec![f("key", Sch::Str(SK::Any), true, None), f("value", Sch::Str(SK::Any), true, None)]), false, Some(TV::Array(vec![]))),
            f(
                "processes",
                Sch::TableArray(vec![
                    f("type", Sch::Str(SK::ProcessType), true, None),
                    f("command", Sch::StrArray(SK::Any), true, None),
                    f("args", Sch::StrArray(SK::Any), false, Some(TV::Array(vec![]))),
                    f("default", Sch::Bool, false, Some(TV::Bool(false))),
                    f("working-dir", Sch::Str(SK::WorkDir), false, None),
                ]),
                false,
                Some(TV::Array(vec![])),
            ),
            f("slices", Sch::TableArray(vec![f("paths", Sch::StrArray(SK::Any), true, None)]), false, Some(TV::Array(vec![]))),
        ],
        // a store.toml without [metadata] is not generated (spec silent): required here, deletion not mutated
        Ty::Store => vec![f("metadata", Sch::Free, true, None)],
        Ty::Package => vec![
            f("buildpack", Sch::Table(vec![f("uri", Sch::Str(SK::Uri), true, None)]), true, None),
            f("dependencies", Sch::TableArray(vec![f("uri", Sch::Str(SK::Uri), true, None)]), false, Some(TV::Array(vec![]))),
            f("platform", Sch::Table(vec![f("os", Sch::Str(SK::Os), false, Some(TV::s("linux")))]), false, Some(TV::table(vec![("os", TV::s("linux"))]))),
        ],
    }
}

// ---------------------------------------------------------------------------------------------
// generation of valid documents
// ---------------------------------------------------------------------------------------------

fn str_strategy(k: SK) -> BoxedStrategy<String> {
    match k {
        SK::Any => nasty_string(8).boxed(),
        SK::Api => prop_oneof![Just("0.10".to_string()), Just("0.9".to_string()), Just("1".to_string()), Just("2020.10".to_string())].boxed(),
        SK::Id => prop_oneof![Just("acme/one".to_string()), Just("x".to_string()), "[a-z0-9./-]{1,10}".prop_filter("reserved", |s| s != "app" && s != "config" && s != "sbom")].boxed(),
        SK::Version => (0u64..30, 0u64..30, prop_oneof![Just(0u64), Just(u64::MAX), 0u64..100]).prop_map(|(a, b, c)| format!("{a}.{b}.{c}")).boxed(),
        SK::ProcessType => "[A-Za-z0-9._-]{1,8}".boxed(),
        SK::Sbom => prop_oneof![Just("application/vnd.cyclonedx+json".to_string()), Just("application/spdx+json".to_string()), Just("application/vnd.syft+json".to_string())].boxed(),
        SK::Uri => prop_oneof![Just(".".to_string()), Just("libcnb:acme/one".to_string()), Just("../rel".to_string()), Just("/abs/path".to_string()), Just("docker://docker.io/a/b:1".to_string()), Just("https://e.com/x.cnb".to_string())].boxed(),
        SK::Os => prop_oneof![Just("linux".to_string()), Just("windows".to_string())].boxed(),
        SK::WorkDir => nasty_string(8).prop_map(|s| if s.is_empty() || s == "." { "/srv/app dir".to_string() } else { s }).boxed(),
        SK::NonEmpty => nasty_string(8).prop_map(|s| if s.is_empty() { "x".to_string() } else { s }).boxed(),
    }
}

fn value_strategy(s: &Sch) -> BoxedStrategy<TV> {
    match s {
        Sch::Str(k) => str_strategy(*k).prop_map(TV::Str).boxed(),
        Sch::Bool => any::<bool>().prop_map(TV::Bool).boxed(),
        Sch::StrArray(k) => proptest::collection::vec(str_strategy(*k), 0..4).prop_map(|v| TV::Array(v.into_iter().map(TV::Str).collect())).boxed(),
        Sch::Table(fields) => table_strategy(fields.clone()),
        Sch::TableArray(fields) => proptest::collection::vec(table_strategy(fields.clone()), 0..4).prop_map(TV::Array).boxed(),
        Sch::Free => meta_table(2).boxed(),
    }
}

fn table_strategy(fields: Vec<Field>) -> BoxedStrategy<TV> {
    // every optional-key subset: each optional key present with probability 1/2
    let mut strat: BoxedStrategy<Vec<(String, TV)>> = Just(vec![]).boxed();
    for fld in fields {
        let vs = match (&fld.sch, fld.req) {
            // a REQUIRED array of tables (order, group) has at least one element: whether an empty one conforms is not decided
            (Sch::TableArray(inner), true) => proptest::collection::vec(table_strategy(inner.clone()), 1..4).prop_map(TV::Array).boxed(),
            _ => value_strategy(&fld.sch),
        };
        let req = fld.req;
        let key = fld.key.to_string();
        strat = (strat, vs, any::<bool>())
            .prop_map(move |(mut acc, v, present)| {
                if req || present {
                    acc.push((key.clone(), v));
                }
                acc
            })
            .boxed();
    }
    strat.prop_map(TV::Table).boxed()
}

// ---------------------------------------------------------------------------------------------
// defaults and mutations (schema-directed)
// ---------------------------------------------------------------------------------------------

fn fill_defaults(fields: &[Field], t: &TV) -> TV {
    let TV::Table(kv) = t else { return t.clone() };
    let mut out = vec![];
    for fld in fields {
        match kv.iter().find(|(k, _)| k == fld.key) {
            Some((_, v)) => out.push((fld.key.to_string(), fill_value(&fld.sch, v))),
            None => {
                if let Some(d) = &fld.default {
                    out.push((fld.key.to_string(), fill_value(&fld.sch, d)));
                }
            }
        }
    }
    TV::Table(out)
}

fn fill_value(s: &Sch, v: &TV) -> TV {
    match (s, v) {
        (Sch::Table(fields), TV::Table(_)) => fill_defaults(fields, v),
        (Sch::TableArray(fields), TV::Array(a)) => TV::Array(a.iter().map(|e| fill_defaults(fields, e)).collect()),
        _ => v.clone(),
    }
}

#[derive(Clone, Debug, PartialEq)]
pub enum PathEl {
    Key(String),
    Idx(usize),
}

#[derive(Clone, Debug)]
pub enum MutKind {
    InsertUnknown,
    DeleteRequired(String),
    Retype(String, &'static str),
    AddOrder,
    AddTargets,
    AddStacks,
    /// the key is present but holds a zero-length array — still a document mixing order with targets/stacks
    AddEmptyTargets,
    AddEmptyStacks,
    /// a key the format defines for a DIFFERENT table, placed here (e.g. `launch = true` at the top level of a layer TOML)
    InsertMisplaced(String, u8),
    /// a key of THIS table spelled differently (clear_env, clearEnv, Clear-env, keyword/keywordss): the known key is
    /// renamed when present, otherwise the misspelling is inserted; either way the table holds an undefined key
    Respell(String, String, u8),
    /// negative control: unknown key inside free-form metadata must still be accepted
    MetadataUnknownKey,
}

#[derive(Clone, Debug)]
pub struct Mutation {
    path: Vec<PathEl>,
    kind: MutKind,
}

fn collect_mutations(fields: &[Field], t: &TV, path: &mut Vec<PathEl>, out: &mut Vec<Mutation>, ty: Ty) {
    let TV::Table(kv) = t else { return };
    out.push(Mutation { path: path.clone(), kind: MutKind::InsertUnknown });
    // keys that exist elsewhere in this format but not in this table
    let here: Vec<&str> = fields.iter().map(|f| f.key).collect();
    let mut all: Vec<(&'static str, u8)> = vec![];
    fn gather(fields: &[Field], out: &mut Vec<(&'static str, u8)>) {
        for f in fields {
            let kind = match &f.sch { Sch::Bool => 0, Sch::Str(_) => 1, _ => 2 };
            if !out.iter().any(|(k, _)| *k == f.key) {
                out.push((f.key, kind));
            }
            match &f.sch {
                Sch::Table(inner) | Sch::TableArray(inner) => gather(inner, out),
                _ => {}
            }
        }
    }
    gather(&schema(ty), &mut all);
    for (k, kind) in all.into_iter().filter(|(k, _)| !here.contains(k) && !kv.iter().any(|(kk, _)| kk == k)) {
        out.push(Mutation { path: path.clone(), kind: MutKind::InsertMisplaced(k.to_string(), kind) });
    }
    for fld in fields {
        let mut spellings: Vec<String> = vec![];
        if fld.key.contains('-') {
            spellings.push(fld.key.replace('-', "_"));
            let mut camel = String::new();
            let mut up = false;
            for ch in fld.key.chars() {
                if ch == '-' {
                    up = true;
                } else if up {
                    camel.extend(ch.to_uppercase());
                    up = false;
                } else {
                    camel.push(ch);
                }
            }
            spellings.push(camel);
        }
        let mut cap = fld.key.to_string();
        if let Some(f) = cap.get(0..1).map(|c| c.to_uppercase()) {
            cap.replace_range(0..1, &f);
        }
        spellings.push(cap);
        spellings.push(if let Some(stem) = fld.key.strip_suffix('s') { stem.to_string() } else { format!("{}s", fld.key) });
        for sp in spellings {
            if sp != fld.key && !sp.is_empty() && !here.contains(&sp.as_str()) && !kv.iter().any(|(kk, _)| *kk == sp) {
                let kind = match &fld.sch { Sch::Bool => 0, Sch::Str(_) => 1, Sch::Table(_) | Sch::Free => 3, _ => 2 };
                out.push(Mutation { path: path.clone(), kind: MutKind::Respell(fld.key.to_string(), sp, kind) });
            }
        }
        let present = kv.iter().find(|(k, _)| k == fld.key);
        if let Some((_, v)) = present {
            if fld.req && !(ty == Ty::Store && fld.key == "metadata") {
                out.push(Mutation { path: path.clone(), kind: MutKind::DeleteRequired(fld.key.to_string()) });
            }
            match (&fld.sch, v) {
                (Sch::Str(_), _) => out.push(Mutation { path: path.clone(), kind: MutKind::Retype(fld.key.to_string(), "str->int") }),
                (Sch::Bool, _) => out.push(Mutation { path: path.clone(), kind: MutKind::Retype(fld.key.to_string(), "bool->str") }),
                (Sch::StrArray(SK::Sbom), TV::Array(a)) if !a.is_empty() => {
                    out.push(Mutation { path: path.clone(), kind: MutKind::Retype(fld.key.to_string(), "array->str") });
                    out.push(Mutation { path: path.clone(), kind: MutKind::Retype(fld.key.to_string(), "elem->int") });
                    // a media type the format does not define, next to defined ones
                    out.push(Mutation { path: path.clone(), kind: MutKind::Retype(fld.key.to_string(), "elem->unknown-enum-value") });
                }
                (Sch::StrArray(_), _) => {
                    out.push(Mutation { path: path.clone(), kind: MutKind::Retype(fld.key.to_string(), "array->str") });
                    out.push(Mutation { path: path.clone(), kind: MutKind::Retype(fld.key.to_string(), "elem->int") });
                }
                (Sch::Table(inner), TV::Table(_)) => {
                    out.push(Mutation { path: path.clone(), kind: MutKind::Retype(fld.key.to_string(), "table->str") });
                    path.push(PathEl::Key(fld.key.to_string()));
                    collect_mutations(inner, v, path, out, ty);
                    path.pop();
                }
                (Sch::TableArray(inner), TV::Array(a)) => {
                    out.push(Mutation { path: path.clone(), kind: MutKind::Retype(fld.key.to_string(), "tablearray->str") });
                    if !a.is_empty() {
                        // `[dependencies]` written by analogy with `[buildpack]`: one well-formed element as a plain table
                        out.push(Mutation { path: path.clone(), kind: MutKind::Retype(fld.key.to_string(), "tablearray->table") });
                    }
                    for (i, e) in a.iter().enumerate() {
                        path.push(PathEl::Key(fld.key.to_string()));
                        path.push(PathEl::Idx(i));
                        collect_mutations(inner, e, path, out, ty);
                        path.pop();
                        path.pop();
                    }
                }
                (Sch::Free, TV::Table(_)) => {
                    out.push(Mutation { path: path.clone(), kind: MutKind::Retype(fld.key.to_string(), "table->str") });
                    let mut p = path.clone();
                    p.push(PathEl::Key(fld.key.to_string()));
                    out.push(Mutation { path: p, kind: MutKind::MetadataUnknownKey });
                }
                _ => {}
            }
        }
    }
}

fn at_path<'a>(t: &'a mut TV, path: &[PathEl]) -> &'a mut TV {
    let mut cur = t;
    for p in path {
        cur = match (p, cur) {
            (PathEl::Key(k), TV::Table(kv)) => &mut kv.iter_mut().find(|(kk, _)| kk == k).expect("path key").1,
            (PathEl::Idx(i), TV::Array(a)) => &mut a[*i],
            _ => panic!("bad path"),
        };
    }
    cur
}

fn apply(doc: &TV, m: &Mutation) -> TV {
    let mut d = doc.clone();
    let target = at_path(&mut d, &m.path);
    let TV::Table(kv) = target else { panic!("mutation target must be a table") };
    match &m.kind {
        MutKind::InsertUnknown | MutKind::MetadataUnknownKey => kv.push(("zz-unknown".into(), TV::s("x"))),
        MutKind::DeleteRequired(k) => kv.retain(|(kk, _)| kk != k),
        MutKind::Retype(k, how) => {
            let slot = &mut kv.iter_mut().find(|(kk, _)| kk == k).unwrap().1;
            *slot = match *how {
                "str->int" => TV::Int(7),
                "bool->str" => TV::s("true"),
                "array->str" | "table->str" | "tablearray->str" => TV::s("x"),
                "elem->unknown-enum-value" => match slot {
                    TV::Array(a) => {
                        let mut a = a.clone();
                        a.insert(1.min(a.len()), TV::s("application/x-not-an-sbom-format+json"));
                        TV::Array(a)
                    }
                    _ => TV::s("x"),
                },
                "tablearray->table" => match slot {
                    TV::Array(a) if !a.is_empty() => a[0].clone(),
                    _ => TV::s("x"),
                },
                "elem->int" => match slot {
                    TV::Array(a) => {
                        let mut a = a.clone();
                        a.push(TV::Int(7));
                        TV::Array(a)
                    }
                    _ => TV::Int(7),
                },
                _ => unreachable!(),
            };
        }
        MutKind::AddOrder => kv.push(("order".into(), TV::Array(vec![TV::table(vec![("group", TV::Array(vec![TV::table(vec![("id", TV::s("a/b")), ("version", TV::s("1.0.0"))])]))])]))),
        MutKind::AddTargets => kv.push(("targets".into(), TV::Array(vec![TV::table(vec![("os", TV::s("linux"))])]))),
        MutKind::AddStacks => kv.push(("stacks".into(), TV::Array(vec![TV::table(vec![("id", TV::s("*"))])]))),
        MutKind::AddEmptyTargets => kv.push(("targets".into(), TV::Array(vec![]))),
        MutKind::AddEmptyStacks => kv.push(("stacks".into(), TV::Array(vec![]))),
        MutKind::InsertMisplaced(k, kind) => kv.push((k.clone(), match kind { 0 => TV::Bool(true), 1 => TV::s("x"), _ => TV::Array(vec![]) })),
        MutKind::Respell(k, sp, kind) => match kv.iter_mut().find(|(kk, _)| kk == k) {
            Some(slot) => slot.0 = sp.clone(),
            None => kv.push((sp.clone(), match kind { 0 => TV::Bool(true), 1 => TV::s("x"), 3 => TV::Table(vec![]), _ => TV::Array(vec![]) })),
        },
    }
    d
}

// ---------------------------------------------------------------------------------------------
// libcnb's parsers, results normalised into the harness's value model
// ---------------------------------------------------------------------------------------------

fn opt_s(out: &mut Vec<(String, TV)>, k: &str, v: &Option<String>) {
    if let Some(s) = v {
        out.push((k.into(), TV::Str(s.clone())));
    }
}
fn strs(v: &[String]) -> TV {
    TV::Array(v.iter().map(|s| TV::Str(s.clone())).collect())
}

fn bp_tv(b: &libcnb_data::buildpack::Buildpack) -> TV {
    let mut o = vec![("id".to_string(), TV::Str(b.id.to_string()))];
    opt_s(&mut o, "name", &b.name);
    o.push(("version".into(), TV::Str(b.version.to_string())));
    opt_s(&mut o, "homepage", &b.homepage);
    o.push(("clear-env".into(), TV::Bool(b.clear_env)));
    opt_s(&mut o, "description", &b.description);
    o.push(("keywords".into(), strs(&b.keywords)));
    o.push((
        "licenses".into(),
        TV::Array(
            b.licenses
                .iter()
                .map(|l| {
                    let mut t = vec![];
                    opt_s(&mut t, "type", &l.r#type);
                    opt_s(&mut t, "uri", &l.uri);
                    TV::Table(t)
                })
                .collect(),
        ),
    ));
    // a set: compare as sorted, deduplicated list
    let mut fm: Vec<String> = b
        .sbom_formats
        .iter()
        .map(|f| match f {
            SbomFormat::CycloneDxJson => "application/vnd.cyclonedx+json".to_string(),
            SbomFormat::SpdxJson => "application/spdx+json".to_string(),
            SbomFormat::SyftJson => "application/vnd.syft+json".to_string(),
        })
        .collect();
    fm.sort();
    o.push(("sbom-formats".into(), strs(&fm)));
    TV::Table(o)
}

fn meta_tv(o: &mut Vec<(String, TV)>, m: &Option<toml::Table>) {
    if let Some(t) = m {
        o.push(("metadata".into(), TV::from_toml_table(t)));
    }
}

pub fn component_tv(d: &ComponentBuildpackDescriptor) -> TV {
    let mut o = vec![("api".to_string(), TV::Str(d.api.to_string())), ("buildpack".into(), bp_tv(&d.buildpack))];
    o.push(("stacks".into(), TV::Array(d.stacks.iter().map(|s| TV::Table(vec![("id".into(), TV::Str(s.id.clone())), ("mixins".into(), strs(&s.mixins))])).collect())));
    o.push((
        "targets".into(),
        TV::Array(
            d.targets
                .iter()
                .map(|t| {
                    let mut x = vec![];
                    opt_s(&mut x, "os", &t.os);
                    opt_s(&mut x, "arch", &t.arch);
                    opt_s(&mut x, "variant", &t.variant);
                    x.push(("distros".into(), TV::Array(t.distros.iter().map(|d| TV::Table(vec![("name".into(), TV::Str(d.name.clone())), ("version".into(), TV::Str(d.version.clone()))])).collect())));
                    TV::Table(x)
                })
                .collect(),
        ),
    ));
    meta_tv(&mut o, &d.metadata);
    TV::Table(o)
}

fn composite_tv(d: &CompositeBuildpackDescriptor) -> TV {
    let mut o = vec![("api".to_string(), TV::Str(d.api.to_string())), ("buildpack".into(), bp_tv(&d.buildpack))];
    o.push((
        "order".into(),
        TV::Array(
            d.order
                .iter()
                .map(|ord| {
                    TV::Table(vec![(
                        "group".into(),
                        TV::Array(ord.group.iter().map(|g| TV::Table(vec![("id".into(), TV::Str(g.id.to_string())), ("version".into(), TV::Str(g.version.to_string())), ("optional".into(), TV::Bool(g.optional))])).collect()),
                    )])
                })
                .collect(),
        ),
    ));
    meta_tv(&mut o, &d.metadata);
    TV::Table(o)
}

/// Ok((classification, normalised value)) or Err(message)
fn parse(ty: Ty, text: &str) -> Result<(&'static str, TV), String> {
    match ty {
        Ty::Component => toml::from_str::<ComponentBuildpackDescriptor>(text).map(|d| ("component", component_tv(&d))).map_err(|e| e.to_string()),
        Ty::Composite => toml::from_str::<CompositeBuildpackDescriptor>(text).map(|d| ("composite", composite_tv(&d))).map_err(|e| e.to_string()),
        Ty::DescriptorFromComponent | Ty::DescriptorFromComposite => toml::from_str::<BuildpackDescriptor>(text)
            .map(|d| match &d {
                BuildpackDescriptor::Component(c) => ("component", component_tv(c)),
                BuildpackDescriptor::Composite(c) => ("composite", composite_tv(c)),
            })
            .map_err(|e| e.to_string()),
        Ty::Plan => toml::from_str::<BuildpackPlan>(text)
            .map(|p| {
                ("plan", TV::Table(vec![("entries".into(), TV::Array(p.entries.iter().map(|e| TV::Table(vec![("name".into(), TV::Str(e.name.clone())), ("metadata".into(), TV::from_toml_table(&e.metadata))])).collect()))]))
            })
            .map_err(|e| e.to_string()),
        Ty::Lcm => toml::from_str::<LayerContentMetadata>(text)
            .map(|l| {
                let mut o = vec![];
                if let Some(t) = l.types {
                    o.push(("types".to_string(), TV::Table(vec![("launch".into(), TV::Bool(t.launch)), ("build".into(), TV::Bool(t.build)), ("cache".into(), TV::Bool(t.cache))])));
                }
                meta_tv(&mut o, &l.metadata);
                ("lcm", TV::Table(o))
            })
            .map_err(|e| e.to_string()),
        Ty::Launch => toml::from_str::<Launch>(text)
            .map(|l| {
                let labels = TV::Array(l.labels.iter().map(|x| TV::Table(vec![("key".into(), TV::Str(x.key.clone())), ("value".into(), TV::Str(x.value.clone()))])).collect());
                let procs = TV::Array(
                    l.processes
                        .iter()
                        .map(|p| {
                            let mut o = vec![("type".to_string(), TV::Str(p.r#type.to_string())), ("command".into(), strs(&p.command)), ("args".into(), strs(&p.args)), ("default".into(), TV::Bool(p.default))];
                            if let WorkingDirectory::Directory(d) = &p.working_directory {
                                o.push(("working-dir".into(), TV::Str(d.to_string_lossy().into_owned())));
                            }
                            TV::Table(o)
                        })
                        .collect(),
                );
                let slices = TV::Array(l.slices.iter().map(|s| TV::Table(vec![("paths".into(), strs(&s.path_globs))])).collect());
                ("launch", TV::Table(vec![("labels".into(), labels), ("processes".into(), procs), ("slices".into(), slices)]))
            })
            .map_err(|e| e.to_string()),
        Ty::Store => toml::from_str::<Store>(text).map(|s| ("store", TV::Table(vec![("metadata".into(), TV::from_toml_table(&s.metadata))]))).map_err(|e| e.to_string()),
        Ty::Package => toml::from_str::<PackageDescriptor>(text)
            .map(|p| {
                (
                    "package",
                    TV::Table(vec![
                        ("buildpack".into(), TV::Table(vec![("uri".into(), TV::Str(p.buildpack.uri.to_string()))])),
                        ("dependencies".into(), TV::Array(p.dependencies.iter().map(|d| TV::Table(vec![("uri".into(), TV::Str(d.uri.to_string()))])).collect())),
                        ("platform".into(), TV::Table(vec![("os".into(), TV::s(if p.platform.os == PlatformOs::Windows { "windows" } else { "linux" }))])),
                    ]),
                )
            })
            .map_err(|e| e.to_string()),
    }
}

fn normalise_expected(ty: Ty, doc: &TV) -> TV {
    let mut e = fill_defaults(&schema(ty), doc);
    // `api = "N"` is equivalent to "N.0" (spec); libcnb renders the parsed value as major.minor
    if let Some(TV::Str(api)) = at_opt(&mut e, "api") {
        if !api.contains('.') {
            api.push_str(".0");
        }
    }
    // sbom-formats is a set
    if let Some(TV::Table(bp)) = at_opt(&mut e, "buildpack") {
        if let Some((_, TV::Array(a))) = bp.iter_mut().find(|(k, _)| k == "sbom-formats") {
            let mut v: Vec<String> = a.iter().map(|x| x.as_str().unwrap().to_string()).collect();
            v.sort();
            v.dedup();
            *a = v.into_iter().map(TV::Str).collect();
        }
    }
    e
}

fn at_opt<'a>(t: &'a mut TV, k: &str) -> Option<&'a mut TV> {
    match t {
        TV::Table(kv) => kv.iter_mut().find(|(kk, _)| kk == k).map(|(_, v)| v),
        _ => None,
    }
}

fn ty_name(ty: Ty) -> &'static str {
    match ty {
        Ty::Component => "ComponentBuildpackDescriptor",
        Ty::Composite => "CompositeBuildpackDescriptor",
        Ty::DescriptorFromComponent => "BuildpackDescriptor(component doc)",
        Ty::DescriptorFromComposite => "BuildpackDescriptor(composite doc)",
        Ty::Plan => "BuildpackPlan",
        Ty::Lcm => "LayerContentMetadata",
        Ty::Launch => "Launch",
        Ty::Store => "Store",
        Ty::Package => "PackageDescriptor",
    }
}

fn expected_class(ty: Ty) -> &'static str {
    match ty {
        Ty::Component | Ty::DescriptorFromComponent => "component",
        Ty::Composite | Ty::DescriptorFromComposite => "composite",
        Ty::Plan => "plan",
        Ty::Lcm => "lcm",
        Ty::Launch => "launch",
        Ty::Store => "store",
        Ty::Package => "package",
    }
}

fn has_key(doc: &TV, k: &str) -> bool {
    doc.get(k).is_some()
}

/// evidence counters collected on a worker thread and absorbed on the main thread
#[derive(Default)]
struct Acc {
    evals: std::cell::Cell<u64>,
    classes: std::cell::RefCell<std::collections::BTreeMap<String, u64>>,
    nontrivial: std::cell::RefCell<Vec<u64>>,
}
struct AccOut {
    evals: u64,
    classes: std::collections::BTreeMap<String, u64>,
    nontrivial: Vec<u64>,
}
impl Acc {
    fn eval(&self) {
        self.evals.set(self.evals.get() + 1);
    }
    fn class(&self, c: &str) {
        *self.classes.borrow_mut().entry(c.to_string()).or_insert(0) += 1;
    }
    fn nontrivial(&self, h: u64) {
        self.nontrivial.borrow_mut().push(h);
    }
    fn finish(self) -> AccOut {
        AccOut { evals: self.evals.get(), classes: self.classes.into_inner(), nontrivial: self.nontrivial.into_inner() }
    }
}
fn absorb(ctx: &Ctx, a: AccOut) {
    ctx.eval_n(a.evals);
    for (c, n) in a.classes {
        ctx.class_n(&c, n);
    }
    for h in a.nontrivial {
        ctx.nontrivial(h);
    }
}

fn check_doc(ctx: &Ctx, ty: Ty, doc: &TV) -> Check {
    let acc = Acc::default();
    let r = check_doc_acc(&acc, ty, doc);
    absorb(ctx, acc.finish());
    r
}

/// One valid document and all of its mutations.
/// a typed layer metadata that no generated document satisfies: the struct layer API then takes its fallback path
/// (generic re-read of the restored `<layer>.toml`, then the invalid-metadata decision)
#[derive(serde::Serialize, serde::Deserialize, Clone, Debug)]
struct NeverMatches {
    verif_required_field_q7: String,
}

/// The text as the restored `<layer>.toml` of an existing layer, requested through `BuildContext::cached_layer` with a
/// metadata type that does not match and the decision "delete the layer". Ok(()) = the request succeeded.
fn request_restored_layer(text: &str) -> Result<(), String> {
    use libcnb::layer::{CachedLayerDefinition, InvalidMetadataAction, RestoredLayerAction};
    let scratch = crate::core::Scratch::new(&format!("c08l-{}", crate::core::uniq()));
    let bc = crate::layermodel::make_context(&scratch.path);
    std::fs::create_dir_all(bc.layers_dir.join("restored")).unwrap();
    std::fs::write(bc.layers_dir.join("restored.toml"), text).unwrap();
    let r = bc.cached_layer(
        libcnb::data::layer_name!("restored"),
        CachedLayerDefinition { build: true, launch: true, invalid_metadata_action: &|_| InvalidMetadataAction::DeleteLayer, restored_layer_action: &|_: &NeverMatches, _| RestoredLayerAction::KeepLayer },
    );
    r.map(|_| ()).map_err(|e| format!("{e:?}"))
}

fn check_doc_acc(ctx: &Acc, ty: Ty, doc: &TV) -> Check {
    let name = ty_name(ty);
    let text = emit_doc(doc);
    ctx.eval();
    // valid document: accepted, classified, values equal incl. defaults
    match parse(ty, &text) {
        Err(e) => {
            let platform_without_os = ty == Ty::Package && matches!(doc.get("platform"), Some(TV::Table(t)) if t.is_empty());
            let sig = if platform_without_os { "C08:package-platform-os-default".to_string() } else { format!("C08:{name}:valid-document-rejected") };
            return Err(Fail::new(sig, format!("{e}\n{text}")));
        }
        Ok((class, got)) => {
            ensure!(class == expected_class(ty), format!("C08:{name}:misclassified"), "classified as {class}\n{text}");
            let want = normalise_expected(ty, doc);
            ensure!(got.sem_eq(&want), format!("C08:{name}:value-differs"), "parsed {got:?}\nexpected {want:?}\n{text}");
        }
    }
    // the same document as a restored layer file read by the struct layer API (control for the mutations below)
    if ty == Ty::Lcm {
        if let Err(e) = request_restored_layer(&text) {
            return Err(Fail::new("C08:LayerContentMetadata:valid-restored-layer-file-refused", format!("{e}\n{text}")));
        }
        ctx.class("lcm:valid-restored-layer-file-through-cached_layer");
    }
    // mutations
    let mut muts = vec![];
    collect_mutations(&schema(ty), doc, &mut vec![], &mut muts, ty);
    match ty {
        Ty::Component | Ty::DescriptorFromComponent => muts.push(Mutation { path: vec![], kind: MutKind::AddOrder }),
        Ty::Composite | Ty::DescriptorFromComposite => {
            muts.push(Mutation { path: vec![], kind: MutKind::AddTargets });
            muts.push(Mutation { path: vec![], kind: MutKind::AddStacks });
            muts.push(Mutation { path: vec![], kind: MutKind::AddEmptyTargets });
            muts.push(Mutation { path: vec![], kind: MutKind::AddEmptyStacks });
        }
        _ => {}
    }
    let nested_aot = muts.iter().any(|m| m.path.iter().any(|p| matches!(p, PathEl::Idx(_))));
    for m in &muts {
        let md = apply(doc, m);
        let mtext = emit_doc(&md);
        ctx.eval();
        let deep = !m.path.is_empty();
        if deep && nested_aot {
            ctx.nontrivial(hash_of(&mtext));
        }
        let r = parse(ty, &mtext);
        let kind_name = match &m.kind {
            MutKind::InsertUnknown => "unknown-key".to_string(),
            MutKind::DeleteRequired(k) => format!("delete-required:{k}"),
            MutKind::Retype(k, how) => format!("retype:{k}:{how}"),
            MutKind::AddOrder => "add-order".into(),
            MutKind::AddTargets => "add-targets".into(),
            MutKind::AddStacks => "add-stacks".into(),
            MutKind::AddEmptyTargets => "add-empty-targets".into(),
            MutKind::AddEmptyStacks => "add-empty-stacks".into(),
            MutKind::InsertMisplaced(k, _) => format!("misplaced-key:{k}"),
            MutKind::Respell(k, sp, _) => format!("respelled-key:{k}->{sp}"),
            MutKind::MetadataUnknownKey => "metadata-unknown-key(control)".into(),
        };
        ctx.class(&format!("mutation:{}", kind_name.split(':').next().unwrap()));
        // what must happen
        enum Want {
            Reject,
            Accept(&'static str),
        }
        if let MutKind::InsertMisplaced(k, _) = &m.kind {
            if m.path.is_empty() && ["order", "targets", "stacks"].contains(&k.as_str()) && matches!(ty, Ty::Component | Ty::Composite | Ty::DescriptorFromComponent | Ty::DescriptorFromComposite) {
                continue;
            }
        }
        let want = match (&m.kind, ty) {
            (MutKind::MetadataUnknownKey, _) => Want::Accept(expected_class(ty)),
            // component document + order: the untagged descriptor becomes composite iff it has neither targets nor stacks
            (MutKind::AddOrder, Ty::DescriptorFromComponent) => {
                let nonempty = |k: &str| matches!(doc.get(k), Some(TV::Array(a)) if !a.is_empty());
                if has_key(doc, "targets") || has_key(doc, "stacks") {
                    if nonempty("targets") || nonempty("stacks") { Want::Reject } else { continue /* order + empty targets/stacks list: not decided by the property */ }
                } else {
                    Want::Accept("composite")
                }
            }
            // composite document without its order is a component document
            (MutKind::DeleteRequired(k), Ty::DescriptorFromComposite) if k == "order" && m.path.is_empty() => Want::Accept("component"),
            _ => Want::Reject,
        };
        match (want, r) {
            (Want::Reject, Ok((class, _))) => {
                return Err(Fail::new(format!("C08:{name}:mutation-accepted:{}", kind_name.split(':').next().unwrap()), format!("mutation {kind_name} at {:?} parsed successfully (as {class})\n{mtext}", m.path)));
            }
            (Want::Accept(c), Ok((class, _))) => {
                ensure!(class == c, format!("C08:{name}:misclassified"), "after {kind_name}: classified {class}, expected {c}\n{mtext}");
            }
            (Want::Accept(_), Err(e)) => {
                return Err(Fail::new(format!("C08:{name}:control-rejected"), format!("{kind_name} at {:?}: {e}\n{mtext}", m.path)));
            }
            (Want::Reject, Err(_)) => {
                // a restored <layer>.toml goes through further readers: the struct layer API must refuse it as well
                if ty == Ty::Lcm {
                    ctx.class("lcm:mutated-restored-layer-file-through-cached_layer");
                    ensure!(request_restored_layer(&mtext).is_err(), "C08:LayerContentMetadata:mutation-accepted-by-struct-layer-api", "mutation {kind_name} at {:?}: cached_layer (metadata type not matching, decision DeleteLayer) succeeded on\n{mtext}", m.path);
                }
            }
        }
    }
    Ok(())
}

fn ty_from_name(s: &str) -> Ty {
    TYPES.into_iter().find(|t| ty_name(*t) == s).expect("type name")
}

pub fn run(ctx: &Ctx) {
    ctx.set_rule("valid documents for ComponentBuildpackDescriptor, CompositeBuildpackDescriptor, BuildpackDescriptor (from component and composite documents), BuildpackPlan, LayerContentMetadata, Launch, Store, PackageDescriptor generated from the harness's own schema of the spec (every optional key present with probability 1/2, 0..3 array-of-table elements, nested free-form metadata, nasty strings) and emitted by the harness's emitter; for each document EVERY single-point mutation: unknown key in each table and array-of-tables element outside metadata, deletion of each required key, retyping of each scalar/array/table (an array of tables also as one plain table holding its first element), adding order/targets/stacks (also as zero-length arrays), inserting a key that the format defines for a different table, respelling each key of the table (clear-env -> clear_env / clearEnv / Clear-env, keywords -> keyword, os -> oss; renamed when present, inserted when absent); negative control: unknown key inside metadata. Oracle: valid => accepted, classified, values equal with spec defaults filled; mutation => rejected (with the composite/component classification rules); LayerContentMetadata documents are additionally planted as the restored <layer>.toml of an existing layer and requested through BuildContext::cached_layer with a metadata type that does not match and the decision DeleteLayer: valid => the request succeeds, mutated => it fails. Non-trivial: mutation applied below the top level of a document that has at least one array-of-tables element; distinct = hash of the mutated text.");
    ctx.assume("store.toml without [metadata] is not generated (spec silent); a component document that already has an empty targets/stacks list plus an added order is not judged");
    for (_p, v) in ctx.regress_files() {
        replay(ctx, "", &v["case"]);
    }
    let per_type = ctx.tier.pick(600, 8000);
    for ty in TYPES {
        let strat = table_strategy(schema(ty));
        ctx.run_prop_par(
            ty_name(ty),
            strat,
            per_type,
            |d| json!({"type": ty_name(ty), "doc": d.to_json()}),
            |d| {
                let acc = Acc::default();
                let r = check_doc_acc(&acc, ty, d);
                (r, acc.finish())
            },
            |d, a| {
                absorb(ctx, a);
                ctx.class(&format!("valid:{}", ty_name(ty)));
                if (ctx.samples_len() < 2 || hash_of(&emit_doc(d)) % 17 == 0) && d.depth() >= 3 {
                    ctx.sample(9, || json!({"type": ty_name(ty), "valid_document": emit_doc(d)}));
                }
            },
        );
    }
    let _ = pick_idx(0, 1);
}

pub fn replay(ctx: &Ctx, _sub: &str, case: &Value) {
    let ty = ty_from_name(case["type"].as_str().unwrap());
    let d = TV::from_json(&case["doc"]);
    ctx.check_case("replay", check_doc(ctx, ty, &d), || case.clone());
}
