//! C05 — detect and build phases exit and write outputs as the buildpack API requires.

use crate::bprun::{self, BpRun, VALID_BUILDPACK_TOML};
use crate::core::{Check, Ctx, Fail, Scratch, bytes_to_json, hash_of};
use crate::fsutil;
use crate::layermodel::{SBOM_EXT, read_toml_independent};
use crate::props::c07;
use crate::tv::{TV, meta_table};
use proptest::prelude::*;
use serde_json::{Value, json};
use std::ffi::OsString;
use std::path::Path;

/// the last four: argv[0] without a file-name component while the executable file itself is called build / detect
const EXE_NAMES: [&str; 9] = ["detect", "build", "vbp", "detect.sh", "Build", "@arg0::build", "@arg0:/:build", "@arg0:..:build", "@arg0::detect"];
#[allow(dead_code)]
const ENV_VARS: [&str; 6] = ["CNB_BUILDPACK_DIR", "CNB_TARGET_OS", "CNB_TARGET_ARCH", "CNB_TARGET_ARCH_VARIANT", "CNB_TARGET_DISTRO_NAME", "CNB_TARGET_DISTRO_VERSION"];

#[derive(Clone, Copy, Debug, PartialEq, Eq, Hash)]
pub enum BpToml {
    Api010,
    ApiLeadingZeros,
    Api09,
    Api011,
    Api1,
    Api0100,
    ApiNonString,
    ApiMissing,
    Malformed,
    FileMissing,
    ApiOkRestInvalid,
}
const BP_TOMLS: [BpToml; 11] = [BpToml::Api010, BpToml::ApiLeadingZeros, BpToml::Api09, BpToml::Api011, BpToml::Api1, BpToml::Api0100, BpToml::ApiNonString, BpToml::ApiMissing, BpToml::Malformed, BpToml::FileMissing, BpToml::ApiOkRestInvalid];

impl BpToml {
    fn text(self) -> Option<String> {
        let with_api = |a: &str| format!("api = {a}\n\n[buildpack]\nid = \"verif/bp\"\nversion = \"1.2.3\"\n");
        match self {
            BpToml::Api010 => Some(VALID_BUILDPACK_TOML.to_string()),
            BpToml::ApiLeadingZeros => Some(with_api("\"00.010\"")),
            BpToml::Api09 => Some(with_api("\"0.9\"")),
            BpToml::Api011 => Some(with_api("\"0.11\"")),
            BpToml::Api1 => Some(with_api("\"1\"")),
            BpToml::Api0100 => Some(with_api("\"0.10.0\"")),
            BpToml::ApiNonString => Some(with_api("0.10")),
            BpToml::ApiMissing => Some("[buildpack]\nid = \"verif/bp\"\nversion = \"1.2.3\"\n".to_string()),
            BpToml::Malformed => Some("api = \"0.10\"\n[buildpack\nid = ".to_string()),
            BpToml::FileMissing => None,
            BpToml::ApiOkRestInvalid => Some("api = \"0.10\"\n\n[buildpack]\nid = \"verif/bp\"\n".to_string()),
        }
    }
    fn api_supported(self) -> bool {
        matches!(self, BpToml::Api010 | BpToml::ApiLeadingZeros | BpToml::ApiOkRestInvalid)
    }
}

#[derive(Clone, Debug, PartialEq)]
pub enum DetectB {
    Pass,
    PassPlan(Vec<c07::BOp>),
    Fail,
    Error,
}

#[derive(Clone, Debug, PartialEq)]
pub struct BuildB {
    kind: u8, // 0 ok, 1 buildpack error, 2 layer error
    launch: Option<Vec<c07::LOp>>,
    store: Option<TV>,
    build_sboms: Vec<(u8, Vec<u8>)>,
    launch_sboms: Vec<(u8, Vec<u8>)>,
}

/// pre-existing state of an output path
#[derive(Clone, Copy, Debug, PartialEq, Eq, Hash)]
pub enum Pre {
    Absent,
    /// a zero-length file (how the lifecycle hands over the build plan path)
    Empty,
    Sentinel,
    Directory,
}

#[derive(Clone, Debug, PartialEq)]
pub struct Row {
    exe: usize,
    argc: usize,
    bp_toml: BpToml,
    env_present: [bool; 6],
    detect: DetectB,
    build: BuildB,
    /// plan file, launch.toml, store.toml, build.sbom.* (3), launch.sbom.* (3)
    pre: [Pre; 9],
    platform_present: bool,
    platform_env_not_utf8: bool,
    buildpack_plan: u8, // 0 valid, 1 missing, 2 malformed, 3 unknown key
    store_in: u8,       // 0 missing, 1 valid, 2 malformed, 3 not UTF-8
    /// value of CNB_TARGET_OS when present
    target_os: u8, // 0 linux, 1 windows, 2 darwin, 3 empty string
}

fn base_row() -> Row {
    Row {
        exe: 0,
        argc: 2,
        bp_toml: BpToml::Api010,
        env_present: [true; 6],
        detect: DetectB::Pass,
        build: BuildB { kind: 0, launch: None, store: None, build_sboms: vec![], launch_sboms: vec![] },
        pre: [Pre::Absent; 9],
        platform_present: true,
        platform_env_not_utf8: false,
        buildpack_plan: 0,
        store_in: 0,
        target_os: 0,
    }
}

fn sbom_list() -> impl Strategy<Value = Vec<(u8, Vec<u8>)>> {
    // subset of formats, each at most once
    (any::<bool>(), any::<bool>(), any::<bool>()).prop_map(|(a, b, c)| {
        let mut v = vec![];
        for (i, on) in [a, b, c].into_iter().enumerate() {
            if on {
                v.push((i as u8, format!("{{\"sbom\":{i}}}").into_bytes()));
            }
        }
        v
    })
}

fn pre_strategy() -> impl Strategy<Value = Pre> {
    prop_oneof![4 => Just(Pre::Absent), 3 => Just(Pre::Empty), 4 => Just(Pre::Sentinel), 1 => Just(Pre::Directory)]
}

fn row_strategy() -> impl Strategy<Value = Row> {
    let detect = prop_oneof![3 => Just(DetectB::Pass), 3 => c07::plan_strategy().prop_map(DetectB::PassPlan), 2 => Just(DetectB::Fail), 2 => Just(DetectB::Error)];
    let build = (prop_oneof![6 => Just(0u8), 1 => Just(1u8), 1 => Just(2u8)], proptest::option::of(c07::launch_strategy()), proptest::option::of(meta_table(2)), sbom_list(), sbom_list())
        .prop_map(|(kind, launch, store, build_sboms, launch_sboms)| BuildB { kind, launch, store, build_sboms, launch_sboms });
    (
        (prop_oneof![8 => Just(0usize), 8 => Just(1usize), 1 => 2usize..5], 0usize..6, proptest::bool::weighted(0.85)),
        prop_oneof![16 => Just(0usize), 3 => 1usize..11],
        proptest::collection::vec(proptest::bool::weighted(0.97), 6),
        detect,
        build,
        proptest::collection::vec(pre_strategy(), 9),
        (proptest::bool::weighted(0.9), proptest::bool::weighted(0.05), prop_oneof![8 => Just(0u8), 1 => Just(1u8), 1 => Just(2u8), 1 => Just(3u8)], prop_oneof![4 => Just(0u8), 4 => Just(1u8), 1 => Just(2u8), 1 => Just(3u8)], prop_oneof![3 => Just(0u8), 2 => Just(1u8), 1 => Just(2u8), 1 => Just(3u8)]),
    )
        .prop_map(|((exe, argc_raw, argc_right), bp, envp, detect, build, pre, (platform_present, platform_env_not_utf8, buildpack_plan, store_in, target_os))| {
            let right = if exe == 1 { 3 } else { 2 };
            Row {
                exe,
                argc: if argc_right || argc_raw > 5 { right } else { argc_raw },
                bp_toml: BP_TOMLS[bp],
                env_present: [envp[0], envp[1], envp[2], envp[3], envp[4], envp[5]],
                detect,
                build,
                pre: [pre[0], pre[1], pre[2], pre[3], pre[4], pre[5], pre[6], pre[7], pre[8]],
                platform_present,
                platform_env_not_utf8,
                buildpack_plan,
                store_in,
                target_os,
            }
        })
}

fn pre_json(p: Pre) -> &'static str {
    match p {
        Pre::Absent => "absent",
        Pre::Empty => "empty",
        Pre::Sentinel => "sentinel",
        Pre::Directory => "directory",
    }
}

fn sboms_json(s: &[(u8, Vec<u8>)]) -> Value {
    json!(s.iter().map(|(f, d)| json!([f, bytes_to_json(d)])).collect::<Vec<_>>())
}

fn row_json(r: &Row) -> Value {
    json!({
        "exe": EXE_NAMES[r.exe], "argc": r.argc, "bp_toml": format!("{:?}", r.bp_toml),
        "env_present": r.env_present,
        "detect": match &r.detect { DetectB::Pass => json!("pass"), DetectB::Fail => json!("fail"), DetectB::Error => json!("error"), DetectB::PassPlan(p) => json!({"pass_plan": c07::plan_ops_json(p)}) },
        "build": {"kind": r.build.kind, "launch": r.build.launch.as_ref().map(|l| c07::launch_ops_json(l)), "store": r.build.store.as_ref().map(TV::to_json), "build_sboms": sboms_json(&r.build.build_sboms), "launch_sboms": sboms_json(&r.build.launch_sboms)},
        "pre": r.pre.iter().map(|p| pre_json(*p)).collect::<Vec<_>>(),
        "platform_present": r.platform_present, "platform_env_not_utf8": r.platform_env_not_utf8, "buildpack_plan": r.buildpack_plan, "store_in": r.store_in, "target_os": r.target_os,
    })
}

fn sboms_from_json(v: &Value) -> Vec<(u8, Vec<u8>)> {
    v.as_array().unwrap().iter().map(|p| (p[0].as_u64().unwrap() as u8, crate::core::json_to_bytes(&p[1]))).collect()
}

fn row_from_json(v: &Value) -> Row {
    let pre = |s: &Value| match s.as_str().unwrap() {
        "absent" => Pre::Absent,
        "empty" => Pre::Empty,
        "sentinel" => Pre::Sentinel,
        _ => Pre::Directory,
    };
    let pv: Vec<Pre> = v["pre"].as_array().unwrap().iter().map(pre).collect();
    let ep: Vec<bool> = v["env_present"].as_array().unwrap().iter().map(|b| b.as_bool().unwrap()).collect();
    Row {
        exe: EXE_NAMES.iter().position(|n| *n == v["exe"].as_str().unwrap()).unwrap(),
        argc: v["argc"].as_u64().unwrap() as usize,
        bp_toml: BP_TOMLS.into_iter().find(|b| format!("{b:?}") == v["bp_toml"].as_str().unwrap()).unwrap(),
        env_present: [ep[0], ep[1], ep[2], ep[3], ep[4], ep[5]],
        detect: if v["detect"] == "pass" { DetectB::Pass } else if v["detect"] == "fail" { DetectB::Fail } else if v["detect"] == "error" { DetectB::Error } else { DetectB::PassPlan(c07::plan_ops_from_json(&v["detect"]["pass_plan"])) },
        build: BuildB {
            kind: v["build"]["kind"].as_u64().unwrap() as u8,
            launch: if v["build"]["launch"].is_null() { None } else { Some(c07::launch_ops_from_json(&v["build"]["launch"])) },
            store: if v["build"]["store"].is_null() { None } else { Some(TV::from_json(&v["build"]["store"])) },
            build_sboms: sboms_from_json(&v["build"]["build_sboms"]),
            launch_sboms: sboms_from_json(&v["build"]["launch_sboms"]),
        },
        pre: [pv[0], pv[1], pv[2], pv[3], pv[4], pv[5], pv[6], pv[7], pv[8]],
        platform_present: v["platform_present"].as_bool().unwrap(),
        platform_env_not_utf8: v["platform_env_not_utf8"].as_bool().unwrap(),
        buildpack_plan: v["buildpack_plan"].as_u64().unwrap() as u8,
        store_in: v["store_in"].as_u64().unwrap() as u8,
        target_os: v["target_os"].as_u64().unwrap_or(0) as u8,
    }
}

fn out_paths(d: &bprun::Dirs) -> Vec<std::path::PathBuf> {
    let mut v = vec![d.plan.clone(), d.layers.join("launch.toml"), d.layers.join("store.toml")];
    for pre in ["build", "launch"] {
        for e in SBOM_EXT {
            v.push(d.layers.join(format!("{pre}.sbom.{e}")));
        }
    }
    v
}

const SENTINEL: &[u8] = b"# sentinel: pre-existing content\n";

#[derive(Debug, PartialEq)]
enum Expect {
    /// never reaches detect/build code, never exits 0 (nor 100 when named detect); error handler at most once
    NoReach,
    /// as NoReach, but reaching the code and behaving normally is acceptable as well (variables the spec calls optional)
    #[allow(dead_code)]
    NoReachOrNormal,
    /// an error after dispatch: error handler exactly once, exit not 0 (and not 100); `reached` = buildpack code ran
    Error { reached: bool },
    DetectPass { plan: bool },
    DetectFail,
    BuildOk,
}

fn expectation(r: &Row) -> Expect {
    let name = EXE_NAMES[r.exe];
    if !r.env_present[0] || !r.bp_toml.api_supported() {
        return Expect::NoReach;
    }
    if name != "detect" && name != "build" {
        return Expect::NoReach;
    }
    let right_argc = if name == "build" { 3 } else { 2 };
    if r.argc != right_argc {
        return Expect::NoReach;
    }
    if r.bp_toml == BpToml::ApiOkRestInvalid {
        return Expect::Error { reached: false };
    }
    let input_error = (r.platform_present && r.platform_env_not_utf8) || (name == "build" && (r.buildpack_plan != 0 || r.store_in >= 2 || (r.store_in == 0 && r.pre[2] == Pre::Directory)));
    if !r.env_present[1] || !r.env_present[2] {
        return Expect::NoReach;
    }
    // libcnb documents CNB_TARGET_DISTRO_NAME/VERSION as mandatory (for every target OS)
    if !r.env_present[4] || !r.env_present[5] {
        return Expect::NoReach;
    }
    if input_error {
        return Expect::Error { reached: false };
    }
    if name == "detect" {
        match &r.detect {
            DetectB::Pass => Expect::DetectPass { plan: false },
            DetectB::PassPlan(_) => {
                if r.pre[0] == Pre::Directory {
                    Expect::Error { reached: true }
                } else {
                    Expect::DetectPass { plan: true }
                }
            }
            DetectB::Fail => Expect::DetectFail,
            DetectB::Error => Expect::Error { reached: true },
        }
    } else {
        if r.build.kind != 0 {
            return Expect::Error { reached: true };
        }
        // an output that has to be written but whose path is a directory cannot be written
        let mut blocked = (r.build.launch.is_some() && r.pre[1] == Pre::Directory) || (r.build.store.is_some() && r.store_in == 0 && r.pre[2] == Pre::Directory);
        for (f, _) in &r.build.build_sboms {
            blocked |= r.pre[3 + *f as usize] == Pre::Directory;
        }
        for (f, _) in &r.build.launch_sboms {
            blocked |= r.pre[6 + *f as usize] == Pre::Directory;
        }
        if blocked { Expect::Error { reached: true } } else { Expect::BuildOk }
    }
}

fn check_row(ctx: &Ctx, scratch: &Path, r: &Row) -> Check {
    ctx.eval();
    check_row_pure(scratch, r)
}

fn check_row_pure(scratch: &Path, r: &Row) -> Check {
    let root = scratch.join(format!("row-{:016x}-{}", hash_of(&row_json(r).to_string()), crate::core::uniq()));
    let _ = fsutil::force_remove(&root);
    let d = bprun::setup_dirs(&root);
    let name = EXE_NAMES[r.exe];
    // inputs
    if let Some(t) = r.bp_toml.text() {
        std::fs::write(d.buildpack.join("buildpack.toml"), t).unwrap();
    }
    if r.platform_present {
        std::fs::create_dir_all(d.platform.join("env")).unwrap();
        std::fs::write(d.platform.join("env/FROM_PLATFORM"), b"1").unwrap();
        if r.platform_env_not_utf8 {
            std::fs::write(d.platform.join("env/BAD"), [0xff, 0xfe]).unwrap();
        }
    } else {
        let _ = std::fs::remove_dir_all(&d.platform);
    }
    let is_build = name == "build" || name.ends_with(":build");
    // in build the third argument is the buildpack plan (an input), in detect the second one is the build plan (an output)
    if is_build {
        match r.buildpack_plan {
            0 => std::fs::write(&d.plan, "[[entries]]\nname = \"x\"\n").unwrap(),
            2 => std::fs::write(&d.plan, "[[entries\n").unwrap(),
            3 => std::fs::write(&d.plan, "[[entries]]\nname = \"x\"\nbogus = 1\n").unwrap(),
            _ => {}
        }
        match r.store_in {
            1 => std::fs::write(d.layers.join("store.toml"), "[metadata]\nold = \"store\"\n").unwrap(),
            2 => std::fs::write(d.layers.join("store.toml"), "[metadata\n").unwrap(),
            3 => std::fs::write(d.layers.join("store.toml"), b"[metadata]\nk = \"\xff\"\n").unwrap(),
            _ => {}
        }
        if r.build.kind == 2 {
            std::fs::create_dir_all(d.layers.join("broken")).unwrap();
            std::fs::write(d.layers.join("broken.toml"), "[metadata\nthis is not toml").unwrap();
        }
    }
    // pre-existing outputs (store.toml as an INPUT takes precedence over the sentinel)
    let outs = out_paths(&d);
    for (i, p) in outs.iter().enumerate() {
        if is_build && i == 0 {
            continue;
        }
        if !is_build && i > 0 {
            continue;
        }
        if i == 2 && r.store_in != 0 {
            continue;
        }
        match r.pre[i] {
            Pre::Absent => {}
            // an empty store.toml is not a valid store document: the empty pre-state applies to the other outputs only
            Pre::Empty if i == 2 => {}
            Pre::Empty => std::fs::write(p, b"").unwrap(),
            // store.toml is an input as well: its sentinel has to be a valid store document
            Pre::Sentinel => std::fs::write(p, if i == 2 { &b"[metadata]\nsentinel = \"pre-existing store\"\n"[..] } else { SENTINEL }).unwrap(),
            Pre::Directory => std::fs::create_dir_all(p).unwrap(),
        }
    }
    let before = fsutil::snapshot(&root);
    // invocation
    let all_args: Vec<OsString> = if is_build || name == "Build" {
        vec![d.layers.clone().into(), d.platform.clone().into(), d.plan.clone().into(), "extra1".into(), "extra2".into()]
    } else {
        vec![d.platform.clone().into(), d.plan.clone().into(), "extra1".into(), "extra2".into(), "extra3".into()]
    };
    let args: Vec<OsString> = all_args.into_iter().take(r.argc).collect();
    let env: Vec<(OsString, OsString)> = bprun::full_env(&d)
        .into_iter()
        .enumerate()
        .filter(|(i, _)| r.env_present[*i])
        .map(|(i, kv)| if i == 1 { (kv.0, OsString::from(["linux", "windows", "darwin", ""][r.target_os as usize % 4])) } else { kv })
        .collect();
    // the lifecycle also exports the locations as variables (newer API versions); libcnb takes them from the arguments only
    let mut env = env;
    env.push(("CNB_PLATFORM_DIR".into(), d.platform.clone().into_os_string()));
    env.push(("CNB_BUILD_PLAN_PATH".into(), d.plan.clone().into_os_string()));
    env.push(("CNB_LAYERS_DIR".into(), d.layers.clone().into_os_string()));
    env.push(("CNB_BP_PLAN_PATH".into(), d.plan.clone().into_os_string()));
    let script = json!({
        "detect": match &r.detect { DetectB::Pass => json!("pass"), DetectB::Fail => json!("fail"), DetectB::Error => json!("error"), DetectB::PassPlan(p) => json!({"pass_plan": c07::plan_ops_json(p)}) },
        "build": {"kind": match r.build.kind { 0 => "ok", 1 => "error", _ => "layer_error" }, "launch": r.build.launch.as_ref().map(|l| c07::launch_ops_json(l)), "store": r.build.store.as_ref().map(TV::to_json), "build_sboms": sboms_json(&r.build.build_sboms), "launch_sboms": sboms_json(&r.build.launch_sboms)},
    });
    let out = bprun::run(&BpRun { root: &root, exe_name: name, args, env, script: &script, extra_env: vec![] });
    let after = fsutil::snapshot(&root);
    let exp = expectation(r);
    let nd = out.count("detect");
    let nb = out.count("build");
    let ne = out.count("on_error");
    let code = out.code;
    let what = format!("exit {:?}, markers {:?}, stderr {:?}", code, out.markers, out.stderr.chars().take(300).collect::<String>());
    let unchanged_except = |allowed: &[&Path]| -> Vec<String> {
        fsutil::diff(&before, &after, 50)
            .into_iter()
            .filter(|l| !l.contains("\"ctl") && !allowed.iter().any(|a| l.contains(&format!("{:?}", a.strip_prefix(&root).unwrap().to_string_lossy()))))
            .collect()
    };
    let r_ = (|| -> Check {
        ensure!(code.is_some(), "C05:killed-by-signal", "{what}");
        let code = code.unwrap();
        ensure!(ne <= 1, "C05:error-handler-called-more-than-once", "{what}");
        ensure!(nd + nb <= 1, "C05:buildpack-code-entered-twice", "{what}");
        let noreach = |ctx_: &str| -> Check {
            ensure!(nd == 0 && nb == 0, "C05:reached-buildpack-code", "{ctx_}: {what}");
            ensure!(code != 0, "C05:exit-0-without-running", "{ctx_}: {what}");
            if name == "detect" {
                ensure!(code != 100, "C05:exit-100-without-running", "{ctx_}: {what}");
            }
            let d_ = unchanged_except(&[]);
            ensure!(d_.is_empty(), "C05:outputs-touched-without-running", "{ctx_}: {d_:?}");
            Ok(())
        };
        let normal = |exp: &Expect| -> Check {
            match exp {
                Expect::Error { reached } => {
                    ensure!(ne == 1, "C05:error-handler-not-called", "{what}");
                    // detect: neither 0 nor 100; build: non-zero (100 has no meaning for build)
                    ensure!(code != 0 && (name != "detect" || code != 100), "C05:error-exit-code", "{what}");
                    ensure!((nd + nb == 1) == *reached, "C05:reach-mismatch-on-error", "expected reached={reached}: {what}");
                    // nothing may claim success: outputs not belonging to a successful run need not be preserved
                    // bit-for-bit after a failed WRITE, but inputs and unrelated files must be
                    if !*reached || (name == "build" && r.build.kind != 0) || (name == "detect" && r.detect == DetectB::Error) {
                        let d_ = unchanged_except(&[&d.layers.join("broken.toml")]);
                        ensure!(d_.is_empty(), "C05:outputs-written-on-error", "{d_:?}; {what}");
                    }
                    Ok(())
                }
                Expect::DetectPass { plan } => {
                    ensure!(nd == 1 && nb == 0 && ne == 0, "C05:markers", "{what}");
                    ensure!(code == 0, "C05:detect-pass-exit-code", "{what}");
                    if *plan {
                        let text = std::fs::read_to_string(&d.plan).map_err(|e| Fail::new("C05:plan-not-written", e.to_string()))?;
                        let tv = read_toml_independent(&text).map_err(|e| Fail::new("C05:plan-not-valid-toml", e))?;
                        if let DetectB::PassPlan(ops) = &r.detect {
                            let (_, groups) = c07::build_plan(ops)?;
                            c07::compare_plan(&tv, &groups, &text).map_err(|f| Fail::new(f.sig.replace("C07", "C05"), f.msg))?;
                        }
                        let d_ = unchanged_except(&[&d.plan]);
                        ensure!(d_.is_empty(), "C05:detect-touches-other-files", "{d_:?}");
                    } else {
                        let d_ = unchanged_except(&[]);
                        ensure!(d_.is_empty(), "C05:plan-written-without-plan", "{d_:?}");
                    }
                    Ok(())
                }
                Expect::DetectFail => {
                    ensure!(nd == 1 && nb == 0 && ne == 0, "C05:markers", "{what}");
                    ensure!(code == 100, "C05:detect-fail-exit-code", "{what}");
                    let d_ = unchanged_except(&[]);
                    ensure!(d_.is_empty(), "C05:plan-written-on-fail", "{d_:?}");
                    Ok(())
                }
                Expect::BuildOk => {
                    ensure!(nb == 1 && nd == 0 && ne == 0, "C05:markers", "{what}");
                    ensure!(code == 0, "C05:build-ok-exit-code", "{what}");
                    let mut allowed: Vec<std::path::PathBuf> = vec![];
                    if let Some(l) = &r.build.launch {
                        let p = d.layers.join("launch.toml");
                        let text = std::fs::read_to_string(&p).map_err(|e| Fail::new("C05:launch-not-written", e.to_string()))?;
                        let tv = read_toml_independent(&text).map_err(|e| Fail::new("C05:launch-not-valid-toml", e))?;
                        let (_, model) = c07::build_launch(l);
                        c07::compare_launch(&tv, &model, &text).map_err(|f| Fail::new(f.sig.replace("C07", "C05"), f.msg))?;
                        allowed.push(p);
                    }
                    if let Some(s) = &r.build.store {
                        let p = d.layers.join("store.toml");
                        let text = std::fs::read_to_string(&p).map_err(|e| Fail::new("C05:store-not-written", e.to_string()))?;
                        let tv = read_toml_independent(&text).map_err(|e| Fail::new("C05:store-not-valid-toml", e))?;
                        let got = tv.get("metadata").cloned().unwrap_or(TV::Table(vec![]));
                        ensure!(got.sem_eq(s), "C05:store-differs", "read {got:?}, provided {s:?}");
                        allowed.push(p);
                    }
                    for (prefix, list) in [("build", &r.build.build_sboms), ("launch", &r.build.launch_sboms)] {
                        for (f, data) in list {
                            let p = d.layers.join(format!("{prefix}.sbom.{}", SBOM_EXT[*f as usize]));
                            let got = std::fs::read(&p).map_err(|e| Fail::new("C05:sbom-not-written", format!("{}: {e}", p.display())))?;
                            ensure!(got == *data, "C05:sbom-differs", "{} holds {:?}", p.display(), String::from_utf8_lossy(&got));
                            allowed.push(p);
                        }
                    }
                    // everything that was not provided is byte-identical to before (incl. absent), nothing else changes
                    let refs: Vec<&Path> = allowed.iter().map(|p| p.as_path()).collect();
                    let d_ = unchanged_except(&refs);
                    ensure!(d_.is_empty(), "C05:unprovided-output-touched", "{d_:?}");
                    Ok(())
                }
                _ => unreachable!(),
            }
        };
        let judge = |e: &Expect| -> Check {
            match e {
                Expect::NoReach => noreach("must not reach buildpack code"),
                Expect::NoReachOrNormal => {
                    if nd + nb == 0 {
                        noreach("optional target variable missing")
                    } else {
                        // treated as optional: behave as if present
                        let mut r2 = r.clone();
                        r2.env_present[4] = true;
                        r2.env_present[5] = true;
                        normal(&expectation(&r2))
                    }
                }
                e => normal(e),
            }
        };
        let primary = judge(&exp);
        if primary.is_err() {
            // dimensions the statement leaves open: any of the listed behaviours is accepted
            for alt in undecided_alternatives(r) {
                if judge(&alt).is_ok() {
                    return Ok(());
                }
            }
        }
        primary
    })();
    let _ = fsutil::force_remove(&root);
    r_
}

/// Behaviours that are as good as the primary expectation where the statement (and the documented contract) is silent:
/// an api written with redundant leading zeros may count as unsupported; an empty CNB_TARGET_OS may count as missing;
/// a missing <platform> directory may be an error; a non-UTF-8 platform env value may be passed on unchanged (Env holds
/// OsStrings); a directory where store.toml would be may count as "no store"; a descriptor that is invalid beyond its api
/// together with missing mandatory environment may fail on either.
fn undecided_alternatives(r: &Row) -> Vec<Expect> {
    let mut alts = vec![];
    let name = EXE_NAMES[r.exe];
    if r.bp_toml == BpToml::ApiLeadingZeros {
        alts.push(Expect::NoReach);
    }
    if r.target_os == 3 {
        alts.push(Expect::NoReach);
    }
    if !r.platform_present {
        alts.push(Expect::Error { reached: false });
        alts.push(Expect::NoReach);
    }
    if r.platform_present && r.platform_env_not_utf8 {
        let mut r2 = r.clone();
        r2.platform_env_not_utf8 = false;
        alts.push(expectation(&r2));
    }
    if name == "build" && r.store_in == 0 && r.pre[2] == Pre::Directory {
        if r.build.store.is_some() {
            alts.push(Expect::Error { reached: true });
        } else {
            let mut r2 = r.clone();
            r2.pre[2] = Pre::Absent;
            alts.push(expectation(&r2));
        }
    }
    if r.bp_toml == BpToml::ApiOkRestInvalid && r.env_present[1..].iter().any(|p| !*p) {
        alts.push(Expect::NoReach);
    }
    alts
}

fn single_deviation_rows() -> Vec<Row> {
    let mut rows = vec![];
    for exe in 0..2 {
        let mut base = base_row();
        base.exe = exe;
        base.argc = if exe == 1 { 3 } else { 2 };
        rows.push(base.clone());
        for e in 0..EXE_NAMES.len() {
            let mut r = base.clone();
            r.exe = e;
            rows.push(r);
        }
        for a in 0..6 {
            let mut r = base.clone();
            r.argc = a;
            rows.push(r);
        }
        for b in BP_TOMLS {
            let mut r = base.clone();
            r.bp_toml = b;
            rows.push(r);
        }
        for i in 0..6 {
            for os in 0..4 {
                let mut r = base.clone();
                r.env_present[i] = false;
                r.target_os = os;
                rows.push(r);
            }
        }
        for detect in [
            DetectB::Pass,
            DetectB::Fail,
            DetectB::Error,
            DetectB::PassPlan(vec![c07::BOp::Provides("x".into()), c07::BOp::Or, c07::BOp::Requires("y".into(), None)]),
            // only alternatives: the top-level group is empty
            DetectB::PassPlan(vec![c07::BOp::Or, c07::BOp::Provides("x".into()), c07::BOp::Or, c07::BOp::Requires("y".into(), None)]),
            DetectB::PassPlan(vec![]),
        ] {
            for pre in [Pre::Absent, Pre::Empty, Pre::Sentinel, Pre::Directory] {
                let mut r = base.clone();
                r.detect = detect.clone();
                r.pre[0] = pre;
                rows.push(r);
            }
        }
        // every subset of {launch, store, build sboms, launch sboms} x pre-existing state of all outputs
        for mask in 0..16u8 {
            for pre in [Pre::Absent, Pre::Empty, Pre::Sentinel] {
                let mut r = base.clone();
                r.build.launch = if mask & 1 != 0 { Some(vec![]) } else { None };
                r.build.store = if mask & 2 != 0 { Some(TV::table(vec![("k", TV::s("v"))])) } else { None };
                r.build.build_sboms = if mask & 4 != 0 { vec![(0, b"{}".to_vec()), (2, b"[]".to_vec())] } else { vec![] };
                r.build.launch_sboms = if mask & 8 != 0 { vec![(1, b"{\"l\":1}".to_vec())] } else { vec![] };
                r.pre = [pre; 9];
                rows.push(r);
            }
        }
        for kind in 1..3 {
            let mut r = base.clone();
            r.build.kind = kind;
            r.build.launch = Some(vec![]);
            r.pre = [Pre::Sentinel; 9];
            rows.push(r);
        }
        for i in 1..9 {
            let mut r = base.clone();
            r.build.launch = Some(vec![]);
            r.build.store = Some(TV::Table(vec![]));
            r.build.build_sboms = vec![(0, vec![]), (1, vec![]), (2, vec![])];
            r.build.launch_sboms = vec![(0, vec![]), (1, vec![]), (2, vec![])];
            r.pre[i] = Pre::Directory;
            rows.push(r);
        }
        for (pp, pu, bplan, st) in [(false, false, 0, 0), (true, true, 0, 0), (true, false, 1, 0), (true, false, 2, 0), (true, false, 3, 0), (true, false, 0, 1), (true, false, 0, 2), (true, false, 0, 3)] {
            let mut r = base.clone();
            r.platform_present = pp;
            r.platform_env_not_utf8 = pu;
            r.buildpack_plan = bplan;
            r.store_in = st;
            rows.push(r);
        }
    }
    rows
}

fn classify(ctx: &Ctx, r: &Row) {
    let exp = expectation(r);
    ctx.class(&format!("expect:{}", match exp {
        Expect::NoReach => "no-reach",
        Expect::NoReachOrNormal => "no-reach-or-normal",
        Expect::Error { reached: true } => "error-in-buildpack-or-write",
        Expect::Error { reached: false } => "error-before-buildpack-code",
        Expect::DetectPass { plan: true } => "detect-pass-with-plan",
        Expect::DetectPass { plan: false } => "detect-pass",
        Expect::DetectFail => "detect-fail",
        Expect::BuildOk => "build-ok",
    }));
    let reaches = !matches!(exp, Expect::NoReach | Expect::Error { reached: false });
    // distance from the all-valid row
    let base = base_row();
    let mut dev = 0;
    let name = EXE_NAMES[r.exe];
    if name != "detect" && name != "build" {
        dev += 1;
    }
    if r.argc != if name == "build" { 3 } else { 2 } {
        dev += 1;
    }
    if r.bp_toml != BpToml::Api010 {
        dev += 1;
    }
    dev += r.env_present.iter().filter(|p| !**p).count();
    if !r.platform_present || r.platform_env_not_utf8 {
        dev += 1;
    }
    if name == "build" && (r.buildpack_plan != 0 || r.store_in >= 2) {
        dev += 1;
    }
    let _ = base;
    if reaches || dev == 1 {
        ctx.nontrivial(hash_of(&row_json(r).to_string()));
    }
}

pub fn run(ctx: &Ctx) {
    ctx.set_rule("rows of the product: executable name {detect, build, vbp, detect.sh, Build, and argv[0] = '' / '/' / '..' with the executable file itself called build or detect} x argument count 0..5 x buildpack.toml {api 0.10, 00.010, 0.9, 0.11, 1, 0.10.0, non-string api, api missing, malformed, file missing, api ok but rest invalid} x presence of each of CNB_BUILDPACK_DIR, CNB_TARGET_OS/ARCH/ARCH_VARIANT/DISTRO_NAME/DISTRO_VERSION x scripted behaviour (detect: pass, pass+generated plan, fail, error; build: every subset of {launch, store, build SBOM formats, launch SBOM formats}, buildpack error, layer error from a real failing layer request) x pre-existing output files {absent, zero-length, sentinel bytes, a directory in the way} x CNB_TARGET_OS in {linux, windows, darwin, ''} x inputs (platform dir missing, non-UTF-8 platform env file, buildpack plan missing/malformed/unknown key, store.toml missing/valid/malformed/not UTF-8), each executed as a real process through a symlink. All single-dimension deviations from the all-valid rows are enumerated exhaustively, the rest of the product is sampled. Where the statement is silent (api with leading zeros, empty CNB_TARGET_OS, missing <platform>, non-UTF-8 platform env value handed on, a directory at store.toml, invalid descriptor combined with missing env) each compatible behaviour is accepted. Oracle: independent decision table over exit code, marker files written on entering detect/build/on_error, output files decoded by Python tomllib, and a snapshot differential of the scenario directory. Non-trivial: the row reaches buildpack code, or differs from the all-valid row in exactly one dimension; distinct = hash of the row.");
    ctx.assume("CNB_TARGET_DISTRO_NAME/VERSION count as mandatory environment (libcnb documents them as mandatory although the spec calls them optional), for every value of CNB_TARGET_OS");
    ctx.assume("feature `trace` off; argv and paths are UTF-8");
    let scratch = Scratch::new("c05");
    for (_p, v) in ctx.regress_files() {
        replay(ctx, "", &v["case"]);
    }
    for r in single_deviation_rows() {
        classify(ctx, &r);
        ctx.class("single-deviation-row");
        if !ctx.check_case("single", check_row(ctx, &scratch.path, &r), || row_json(&r)) {
            break;
        }
    }
    ctx.run_prop_par(
        "product",
        row_strategy(),
        ctx.tier.pick(12_000, 300_000),
        row_json,
        |r| (check_row_pure(&scratch.path, r), ()),
        |r, ()| {
            ctx.eval();
            classify(ctx, r);
            if (ctx.samples_len() < 2 || hash_of(&row_json(r).to_string()) % 499 == 0) {
                ctx.sample(6, || row_json(r));
            }
        },
    );
}

pub fn replay(ctx: &Ctx, _sub: &str, case: &Value) {
    let scratch = Scratch::new("c05r");
    let r = row_from_json(case);
    ctx.check_case("replay", check_row(ctx, &scratch.path, &r), || case.clone());
}
