//! C19 — child output streamed fully without deadlock; writers chunking-independent.

use crate::core::{Check, Ctx, Fail, Scratch, Tier, bin_dir, hash_of, ncpu, par_map};
use libherokubuildpack::command::CommandExt;
use libherokubuildpack::write::mappers::{add_prefix, map_utf8_lossy};
use libherokubuildpack::write::{line_mapped, mapped, tee};
use proptest::prelude::*;
use serde_json::{Value, json};
use std::io::Write;
use std::process::Command;
use std::sync::mpsc;
use std::time::Duration;

// ------------------------------------------------------------------------------------------
// (2) MappedWrite / (3) TeeWrite under all chunkings
// ------------------------------------------------------------------------------------------

const MARK: u8 = b'M';

fn bracket(seg: Vec<u8>) -> Vec<u8> {
    let mut o = vec![b'['];
    o.extend(seg);
    o.push(b']');
    o
}

/// a FILTERING mapping: segments whose first byte is `a` map to nothing at all, everything else is bracketed
fn bracket_or_drop(seg: Vec<u8>) -> Vec<u8> {
    if seg.first() == Some(&b'a') { vec![] } else { bracket(seg) }
}

/// reference: mapping of each marker-terminated segment, then of the non-empty remainder
fn ref_mapped(input: &[u8], marker: u8, f: &dyn Fn(Vec<u8>) -> Vec<u8>) -> Vec<u8> {
    let mut out = vec![];
    let mut cur = vec![];
    for b in input {
        cur.push(*b);
        if *b == marker {
            out.extend(f(std::mem::take(&mut cur)));
        }
    }
    if !cur.is_empty() {
        out.extend(f(cur));
    }
    out
}

/// chunking = bit i set => split after byte i (i in 0..n-1); `empties` inserts zero-length writes at every boundary
fn chunks<'a>(input: &'a [u8], mask: u32, empties: bool) -> Vec<&'a [u8]> {
    let mut out = vec![];
    let mut start = 0;
    if empties {
        out.push(&input[0..0]);
    }
    for i in 0..input.len() {
        let last = i + 1 == input.len();
        if last || mask >> i & 1 == 1 {
            out.push(&input[start..=i]);
            if empties {
                out.push(&input[0..0]);
            }
            start = i + 1;
        }
    }
    out
}

#[derive(Clone, Copy, Debug, PartialEq, Eq, Hash)]
pub enum Fin {
    Drop,
    Unwrap,
}

fn run_mapped(input: &[u8], mask: u32, empties: bool, fin: Fin, marker: u8, f: fn(Vec<u8>) -> Vec<u8>) -> Result<Vec<u8>, String> {
    match fin {
        Fin::Drop => {
            let mut out = vec![];
            {
                let mut w = mapped(&mut out, marker, f);
                for c in chunks(input, mask, empties) {
                    let n = w.write(c).map_err(|e| e.to_string())?;
                    if n != c.len() {
                        // std contract: caller would re-submit the rest; do so
                        w.write_all(&c[n..]).map_err(|e| e.to_string())?;
                    }
                    if empties {
                        // a flush between two write calls (what a BufWriter in front does) is not a segment boundary
                        w.flush().map_err(|e| e.to_string())?;
                    }
                }
                w.flush().map_err(|e| e.to_string())?;
            }
            Ok(out)
        }
        Fin::Unwrap => {
            let mut w = mapped(Vec::new(), marker, f);
            for c in chunks(input, mask, empties) {
                w.write_all(c).map_err(|e| e.to_string())?;
                if empties {
                    w.flush().map_err(|e| e.to_string())?;
                }
            }
            Ok(w.unwrap())
        }
    }
}

fn check_mapped(input: &[u8], mask: u32, empties: bool, fin: Fin) -> Check {
    // every third chunking uses the filtering mapping (some segments map to the empty string)
    if mask % 3 == 2 {
        let want = ref_mapped(input, MARK, &bracket_or_drop);
        let got = run_mapped(input, mask, empties, fin, MARK, bracket_or_drop).map_err(|e| Fail::new("C19:mapped-write:io-error", e))?;
        ensure!(got == want, "C19:mapped-write:output-differs", "filtering mapping, input {:?} chunk-mask {mask:b} empties={empties} {fin:?}: got {:?} want {:?}", String::from_utf8_lossy(input), String::from_utf8_lossy(&got), String::from_utf8_lossy(&want));
        return Ok(());
    }
    let want = ref_mapped(input, MARK, &bracket);
    let got = run_mapped(input, mask, empties, fin, MARK, bracket).map_err(|e| Fail::new("C19:mapped-write:io-error", e))?;
    if got != want {
        let sig = if got.len() == want.len() + 2 && got.ends_with(b"[]") && got.starts_with(&want) {
            "C19:mapped-write:empty-remainder-mapped"
        } else {
            "C19:mapped-write:output-differs"
        };
        return Err(Fail::new(
            sig,
            format!(
                "input {:?} chunk-mask {mask:b} empties={empties} {fin:?}: got {:?} want {:?}",
                String::from_utf8_lossy(input),
                String::from_utf8_lossy(&got),
                String::from_utf8_lossy(&want)
            ),
        ));
    }
    Ok(())
}

/// writer accepting at most `max` bytes per write call (legal per the Write contract)
struct ShortWriter {
    max: usize,
    data: Vec<u8>,
    calls: usize,
}
impl Write for ShortWriter {
    fn write(&mut self, buf: &[u8]) -> std::io::Result<usize> {
        // bounds that are odd make the writer answer `Interrupted` ("nothing consumed, try again") on every third call
        if self.max % 2 == 1 && self.max < usize::MAX {
            self.calls += 1;
            if self.calls % 3 == 2 {
                return Err(std::io::Error::from(std::io::ErrorKind::Interrupted));
            }
        }
        let n = buf.len().min(self.max);
        self.data.extend_from_slice(&buf[..n]);
        Ok(n)
    }
    fn flush(&mut self) -> std::io::Result<()> {
        Ok(())
    }
}

fn check_tee(input: &[u8], mask: u32, max_a: usize, max_b: usize) -> Check {
    let mut a = ShortWriter { max: max_a, data: vec![], calls: 0 };
    let mut b = ShortWriter { max: max_b, data: vec![], calls: 0 };
    {
        let mut t = tee(&mut a, &mut b);
        if mask % 2 == 1 && !input.is_empty() {
            // the same chunks handed over as ONE vectored write (re-submitting what was not accepted, as write_all_vectored does)
            let cs = chunks(input, mask, false);
            let mut consumed = 0usize;
            while consumed < input.len() {
                let mut skip = consumed;
                let mut slices: Vec<std::io::IoSlice> = vec![];
                for c in &cs {
                    if skip >= c.len() {
                        skip -= c.len();
                    } else {
                        slices.push(std::io::IoSlice::new(&c[skip..]));
                        skip = 0;
                    }
                }
                let n = match t.write_vectored(&slices) {
                    Ok(n) => n,
                    Err(e) if e.kind() == std::io::ErrorKind::Interrupted => continue,
                    Err(e) => return Err(Fail::new("C19:tee:io-error", e.to_string())),
                };
                ensure!(n > 0 && consumed + n <= input.len(), "C19:tee:bad-write-count", "write_vectored returned {n} with {} bytes outstanding", input.len() - consumed);
                consumed += n;
            }
        } else {
            for c in chunks(input, mask, false) {
                // honour the Write contract: re-submit what was not accepted
                let mut rest = c;
                while !rest.is_empty() {
                    let n = match t.write(rest) {
                        Ok(n) => n,
                        Err(e) if e.kind() == std::io::ErrorKind::Interrupted => continue,
                        Err(e) => return Err(Fail::new("C19:tee:io-error", e.to_string())),
                    };
                    ensure!(n > 0 && n <= rest.len(), "C19:tee:bad-write-count", "write returned {n} for {} bytes", rest.len());
                    rest = &rest[n..];
                }
            }
        }
        t.flush().map_err(|e| Fail::new("C19:tee:io-error", e.to_string()))?;
    }
    ensure!(a.data == input, "C19:tee:first-target-differs", "input {:?} mask {mask:b} a(max {max_a}) got {:?}", String::from_utf8_lossy(input), String::from_utf8_lossy(&a.data));
    ensure!(b.data == input, "C19:tee:second-target-differs", "input {:?} mask {mask:b} b(max {max_b}) got {:?}", String::from_utf8_lossy(input), String::from_utf8_lossy(&b.data));
    Ok(())
}

fn all_inputs(max_len: usize) -> Vec<Vec<u8>> {
    let alpha = [MARK, b'a', b'b'];
    let mut out = vec![vec![]];
    let mut frontier: Vec<Vec<u8>> = vec![vec![]];
    for _ in 0..max_len {
        let mut next = vec![];
        for f in &frontier {
            for c in alpha {
                let mut s = f.clone();
                s.push(c);
                next.push(s);
            }
        }
        out.extend(next.iter().cloned());
        frontier = next;
    }
    out
}

fn mapped_case_json(input: &[u8], mask: u32, empties: bool, fin: Fin) -> Value {
    json!({"input": String::from_utf8_lossy(input), "mask": mask, "empties": empties, "fin": format!("{fin:?}")})
}

struct WStats {
    evals: u64,
    nt: Vec<u64>,
    fail: Option<(&'static str, Fail, Value)>,
}

fn run_writers_exhaustive(ctx: &Ctx, max_len: usize) {
    let inputs = all_inputs(max_len);
    ctx.class_n("mapped:inputs", inputs.len() as u64);
    let known_empty_remainder = ctx.is_known("C19:mapped-write:empty-remainder-mapped").is_some();
    let res = par_map(&inputs, ncpu(), |input| {
        let mut st = WStats { evals: 0, nt: vec![], fail: None };
        let n = input.len();
        let nmasks: u32 = if n <= 1 { 1 } else { 1 << (n - 1) };
        for mask in 0..nmasks {
            for fin in [Fin::Drop, Fin::Unwrap] {
                for empties in [false, true] {
                    if empties && mask % 5 != 0 {
                        continue; // zero-length writes: every fifth chunking
                    }
                    st.evals += 1;
                    if let Err(f) = check_mapped(input, mask, empties, fin) {
                        if !(known_empty_remainder && f.sig == "C19:mapped-write:empty-remainder-mapped") && st.fail.is_none() {
                            st.fail = Some(("mapped", f, mapped_case_json(input, mask, empties, fin)));
                        } else if known_empty_remainder && st.fail.is_none() {
                            st.fail = Some(("mapped", f, mapped_case_json(input, mask, empties, fin)));
                        }
                    }
                }
            }
            // non-trivial: contains a marker and is split inside a segment (a split not directly after a marker)
            let has_marker = input.contains(&MARK);
            let split_inside = (0..n.saturating_sub(1)).any(|i| mask >> i & 1 == 1 && input[i] != MARK);
            if has_marker && split_inside {
                st.nt.push(hash_of(&(input, mask)));
            }
            // tee under the same chunking (short writers 1..3 rotated deterministically)
            st.evals += 1;
            let (ma, mb) = (1 + (mask as usize + n) % 3, 1 + (mask as usize / 3 + n) % 3);
            if let Err(f) = check_tee(input, mask, ma, mb) {
                if st.fail.is_none() {
                    st.fail = Some(("tee", f, json!({"input": String::from_utf8_lossy(input), "mask": mask, "max_a": ma, "max_b": mb})));
                }
            }
        }
        st
    });
    let mut sampled = 0;
    for (input, st) in inputs.iter().zip(res) {
        ctx.eval_n(st.evals);
        for h in &st.nt {
            ctx.nontrivial(*h);
        }
        if !st.nt.is_empty() && sampled < 3 && input.len() >= 5 && (ctx.samples_len() < 2 || hash_of(input) % 53 == 0) {
            sampled += 1;
            ctx.sample(20, || json!({"mapped_write_input": String::from_utf8_lossy(input), "chunkings": 1u32 << (input.len() - 1), "finalisers": ["drop", "unwrap"]}));
        }
        if let Some((sub, f, case)) = st.fail {
            ctx.check_case(sub, Err(f), || case);
        }
    }
}

// sampled longer inputs with the library's own mappers
#[derive(Clone, Debug)]
pub struct LongCase {
    input: Vec<u8>,
    cuts: Vec<u16>,
    mapper: u8,
    fin: bool,
}

fn long_strategy() -> impl Strategy<Value = LongCase> {
    (
        proptest::collection::vec(prop_oneof![4 => Just(b'\n'), 8 => Just(b'x'), 2 => Just(0xffu8), 2 => Just(b' '), 1 => any::<u8>()], 0..200),
        proptest::collection::vec(any::<u16>(), 0..12),
        0u8..3,
        any::<bool>(),
    )
        .prop_map(|(input, cuts, mapper, fin)| LongCase { input, cuts, mapper, fin })
}

fn long_json(c: &LongCase) -> Value {
    json!({"input": crate::core::bytes_to_json(&c.input), "cuts": c.cuts, "mapper": c.mapper, "fin": c.fin})
}
fn long_from_json(v: &Value) -> LongCase {
    LongCase {
        input: crate::core::json_to_bytes(&v["input"]),
        cuts: v["cuts"].as_array().unwrap().iter().map(|x| x.as_u64().unwrap() as u16).collect(),
        mapper: v["mapper"].as_u64().unwrap() as u8,
        fin: v["fin"].as_bool().unwrap(),
    }
}

fn check_long(ctx: &Ctx, c: &LongCase) -> Check {
    ctx.eval();
    let mut cut_pos: Vec<usize> = c.cuts.iter().map(|x| crate::core::pick_idx(*x, c.input.len() + 1)).collect();
    cut_pos.sort();
    cut_pos.dedup();
    let mut pieces: Vec<&[u8]> = vec![];
    let mut start = 0;
    for p in cut_pos {
        pieces.push(&c.input[start..p]);
        start = p;
    }
    pieces.push(&c.input[start..]);
    let reference: Box<dyn Fn(Vec<u8>) -> Vec<u8>> = match c.mapper {
        0 => Box::new(|s| [b"> ".to_vec(), s].concat()),
        1 => Box::new(|s| String::from_utf8_lossy(&s).replace('x', "yy").into_bytes()),
        _ => Box::new(|s| s.repeat(2)),
    };
    let want = ref_mapped(&c.input, b'\n', &*reference);
    let run = |pieces: &[&[u8]]| -> Vec<u8> {
        macro_rules! go {
            ($f:expr) => {{
                if c.fin {
                    let mut w = line_mapped(Vec::new(), $f);
                    for p in pieces {
                        w.write_all(p).unwrap();
                    }
                    w.unwrap()
                } else {
                    let mut out = vec![];
                    {
                        let mut w = line_mapped(&mut out, $f);
                        for p in pieces {
                            w.write_all(p).unwrap();
                        }
                    }
                    out
                }
            }};
        }
        match c.mapper {
            0 => go!(add_prefix("> ")),
            1 => go!(map_utf8_lossy(|s| s.replace('x', "yy"))),
            _ => go!(|l: Vec<u8>| l.repeat(2)),
        }
    };
    let got = run(&pieces);
    let whole = run(&[&c.input[..]]);
    if c.input.contains(&b'\n') && pieces.len() > 1 {
        ctx.class("mapped-long:marker+split");
        ctx.nontrivial(hash_of(&(&c.input, &c.cuts, c.mapper, c.fin)));
    }
    if got != want {
        let ends_with_marker = c.input.last() == Some(&b'\n') || c.input.is_empty();
        let extra = reference(vec![]);
        let sig = if ends_with_marker && got.len() == want.len() + extra.len() && got.starts_with(&want) {
            "C19:mapped-write:empty-remainder-mapped"
        } else {
            "C19:mapped-write:output-differs"
        };
        return Err(Fail::new(sig, format!("got {:?} want {:?}", String::from_utf8_lossy(&got), String::from_utf8_lossy(&want))));
    }
    ensure!(got == whole, "C19:mapped-write:chunking-dependent", "chunked output differs from single-write output");
    Ok(())
}

// ------------------------------------------------------------------------------------------
// (1) child process streaming
// ------------------------------------------------------------------------------------------

#[derive(Clone, Debug, PartialEq, Eq, Hash)]
pub enum Step {
    Out(usize),
    Err(usize),
    CloseOut,
    CloseErr,
    Pause(usize),
}

#[derive(Clone, Debug, PartialEq, Eq, Hash)]
pub struct Script {
    threads: Vec<Vec<Step>>,
    exit: u8,
    api_spawn: bool,
    /// the supplied stdout / stderr writer fails after accepting this many bytes (None = never)
    fail_out: Option<usize>,
    fail_err: Option<usize>,
}

fn size_strategy() -> impl Strategy<Value = usize> {
    prop_oneof![
        2 => Just(0usize),
        4 => 1usize..200,
        2 => Just(4096usize),
        2 => Just(65536usize),
        2 => Just(65537usize),
        3 => 65536usize..262145,
        1 => Just(262144usize),
    ]
}

fn step_strategy(streams: u8) -> impl Strategy<Value = Step> {
    // streams: 0 = both, 1 = stdout only, 2 = stderr only
    let out = size_strategy().prop_map(Step::Out).boxed();
    let err = size_strategy().prop_map(Step::Err).boxed();
    let pause = (0usize..4000).prop_map(Step::Pause).boxed();
    match streams {
        1 => prop_oneof![8 => out, 1 => pause, 1 => Just(Step::CloseOut)].boxed(),
        2 => prop_oneof![8 => err, 1 => pause, 1 => Just(Step::CloseErr)].boxed(),
        _ => prop_oneof![5 => out, 5 => err, 1 => pause, 1 => Just(Step::CloseOut), 1 => Just(Step::CloseErr)].boxed(),
    }
}

fn script_strategy() -> impl Strategy<Value = Script> {
    let single = proptest::collection::vec(step_strategy(0), 0..9).prop_map(|s| vec![s]);
    let dual = (proptest::collection::vec(step_strategy(1), 0..6), proptest::collection::vec(step_strategy(2), 0..6)).prop_map(|(a, b)| vec![a, b]);
    let fail = || proptest::option::weighted(0.12, prop_oneof![Just(0usize), Just(10usize), Just(5000usize), Just(70000usize)]);
    (prop_oneof![3 => single, 2 => dual], prop_oneof![3 => Just(0u8), 1 => any::<u8>()], any::<bool>(), fail(), fail()).prop_map(|(threads, exit, api_spawn, fail_out, fail_err)| Script { threads, exit, api_spawn, fail_out, fail_err })
}

fn script_text(s: &Script) -> String {
    let mut parts: Vec<String> = vec![];
    for (ti, t) in s.threads.iter().enumerate() {
        let mut steps: Vec<String> = t
            .iter()
            .map(|st| match st {
                Step::Out(n) => format!("o:{n}"),
                Step::Err(n) => format!("e:{n}"),
                Step::CloseOut => "co".into(),
                Step::CloseErr => "ce".into(),
                Step::Pause(n) => format!("p:{n}"),
            })
            .collect();
        if ti == 0 {
            steps.insert(0, format!("x:{}", s.exit));
        }
        parts.push(steps.join(","));
    }
    parts.join("|")
}

fn content(start: usize, n: usize, s: usize) -> Vec<u8> {
    (start..start + n).map(|p| ((p * 31 + s * 7 + p / 251) % 251) as u8).collect()
}

/// expected bytes per stream (writes after a close of that stream are lost by the child itself)
fn expected(s: &Script) -> (Vec<u8>, Vec<u8>) {
    let mut pos = [0usize; 2];
    let mut out = [vec![], vec![]];
    let mut closed = [false; 2];
    // in dual mode each stream is owned by exactly one thread, so per-stream order is the thread's order
    for t in &s.threads {
        for st in t {
            match st {
                Step::Out(n) | Step::Err(n) => {
                    let i = if matches!(st, Step::Out(_)) { 0 } else { 1 };
                    let c = content(pos[i], *n, i);
                    pos[i] += n;
                    if !closed[i] {
                        out[i].extend(c);
                    }
                }
                Step::CloseOut => closed[0] = true,
                Step::CloseErr => closed[1] = true,
                Step::Pause(_) => {}
            }
        }
    }
    let [a, b] = out;
    (a, b)
}

fn script_json(s: &Script) -> Value {
    json!({"script": script_text(s), "api": if s.api_spawn { "spawn_and_write_streams" } else { "output_and_write_streams" }, "exit": s.exit, "stdout_writer_fails_after": s.fail_out, "stderr_writer_fails_after": s.fail_err})
}

fn script_from_json(v: &Value) -> Script {
    let text = v["script"].as_str().unwrap();
    let mut exit = 0u8;
    let threads = text
        .split('|')
        .map(|t| {
            t.split(',')
                .filter(|x| !x.is_empty())
                .filter_map(|st| {
                    let (op, arg) = st.split_once(':').unwrap_or((st, "0"));
                    let n: usize = arg.parse().unwrap_or(0);
                    match op {
                        "o" => Some(Step::Out(n)),
                        "e" => Some(Step::Err(n)),
                        "co" => Some(Step::CloseOut),
                        "ce" => Some(Step::CloseErr),
                        "p" => Some(Step::Pause(n)),
                        "x" => {
                            exit = n as u8;
                            None
                        }
                        _ => None,
                    }
                })
                .collect()
        })
        .collect();
    Script { threads, exit, api_spawn: v["api"] == "spawn_and_write_streams", fail_out: v["stdout_writer_fails_after"].as_u64().map(|x| x as usize), fail_err: v["stderr_writer_fails_after"].as_u64().map(|x| x as usize) }
}

/// a writer that accepts `limit` bytes and then fails (a closed socket, a full disk)
struct FailingWriter {
    limit: Option<usize>,
    data: Vec<u8>,
}
impl Write for FailingWriter {
    fn write(&mut self, buf: &[u8]) -> std::io::Result<usize> {
        match self.limit {
            Some(l) if self.data.len() + buf.len() > l => {
                let n = l.saturating_sub(self.data.len());
                if n == 0 {
                    return Err(std::io::Error::other("scripted writer failure"));
                }
                self.data.extend_from_slice(&buf[..n]);
                Ok(n)
            }
            _ => {
                self.data.extend_from_slice(buf);
                Ok(buf.len())
            }
        }
    }
    fn flush(&mut self) -> std::io::Result<()> {
        Ok(())
    }
}

fn run_with_writers(cmd: &mut Command, s2: &Script, wo: &mut ShortWriter, we: &mut ShortWriter, want_o: &[u8], want_e: &[u8]) -> Check {
    if s2.api_spawn {
        let mut child = cmd.spawn_and_write_streams(wo, we).map_err(|e| Fail::new("C19:io-error", e.to_string()))?;
        let status = child.wait().map_err(|e| Fail::new("C19:io-error", e.to_string()))?;
        ensure!(status.code() == Some(s2.exit as i32), "C19:exit-status-not-preserved", "status {:?} want {}", status.code(), s2.exit);
    } else {
        let out = cmd.output_and_write_streams(wo, we).map_err(|e| Fail::new("C19:io-error", e.to_string()))?;
        ensure!(out.status.code() == Some(s2.exit as i32), "C19:exit-status-not-preserved", "status {:?} want {}", out.status.code(), s2.exit);
        ensure!(out.stdout == want_o, "C19:output-stdout-differs", "Output.stdout has {} bytes, child wrote {} (first diff at {:?})", out.stdout.len(), want_o.len(), first_diff(&out.stdout, want_o));
        ensure!(out.stderr == want_e, "C19:output-stderr-differs", "Output.stderr has {} bytes, child wrote {} (first diff at {:?})", out.stderr.len(), want_e.len(), first_diff(&out.stderr, want_e));
    }
    Ok(())
}

enum Outcome {
    Done(Check),
    Deadlock(String),
    Stuck(String),
}

fn run_script(scratch: &Scratch, s: &Script, watchdog: Duration) -> Outcome {
    let pidfile = scratch.path.join(format!("pid-{:016x}", hash_of(s)));
    let _ = std::fs::remove_file(&pidfile);
    let (tx, rx) = mpsc::channel();
    let s2 = s.clone();
    let pf = pidfile.clone();
    let vchild = bin_dir().join("vchild");
    std::thread::spawn(move || {
        let (want_o, want_e) = expected(&s2);
        let mut cmd = Command::new(&vchild);
        cmd.arg(script_text(&s2)).env("VCHILD_PIDFILE", &pf).stdin(std::process::Stdio::null());
        let r: Check = (|| {
            if s2.fail_out.is_some() || s2.fail_err.is_some() {
                // a failing writer: the call has to come back (with the writer's error or not) instead of leaving the
                // child blocked on a pipe nobody reads; what was delivered before the failure is not judged
                let mut fo = FailingWriter { limit: s2.fail_out, data: vec![] };
                let mut fe = FailingWriter { limit: s2.fail_err, data: vec![] };
                if s2.api_spawn {
                    if let Ok(mut child) = cmd.spawn_and_write_streams(&mut fo, &mut fe) {
                        let _ = child.wait();
                    }
                } else {
                    let _ = cmd.output_and_write_streams(&mut fo, &mut fe);
                }
                return Ok(());
            }
            // the supplied writers accept a bounded number of bytes per write call (legal per the Write contract): three
            // of four scripts get short-writing writers, with different bounds for the two streams
            let bound = |k: u64| match hash_of(&(&s2, k)) % 4 {
                0 => usize::MAX,
                1 => 7,
                2 => 4096,
                _ => 100_000,
            };
            let mut swo = ShortWriter { max: bound(1), data: vec![], calls: 0 };
            let mut swe = ShortWriter { max: bound(2), data: vec![], calls: 0 };
            let r = run_with_writers(&mut cmd, &s2, &mut swo, &mut swe, &want_o, &want_e);
            let (wo, we) = (swo.data, swe.data);
            r?;
            ensure!(wo == want_o, "C19:writer-stdout-differs", "stdout writer (at most {} bytes per write) got {} bytes, child wrote {} (first diff at {:?})", bound(1), wo.len(), want_o.len(), first_diff(&wo, &want_o));
            ensure!(we == want_e, "C19:writer-stderr-differs", "stderr writer (at most {} bytes per write) got {} bytes, child wrote {} (first diff at {:?})", bound(2), we.len(), want_e.len(), first_diff(&we, &want_e));
            Ok(())
        })();
        let _ = tx.send(r);
    });
    match rx.recv_timeout(watchdog) {
        Ok(r) => {
            let _ = std::fs::remove_file(&pidfile);
            Outcome::Done(r)
        }
        Err(_) => {
            // diagnose: is the child blocked in write(2) on fd 1 or 2?
            let pid = std::fs::read_to_string(&pidfile).ok().and_then(|p| p.trim().parse::<i32>().ok());
            let mut verdict = Outcome::Stuck("watchdog fired; child pid unknown".into());
            if let Some(pid) = pid {
                let mut blocked = None;
                if let Ok(rd) = std::fs::read_dir(format!("/proc/{pid}/task")) {
                    for t in rd.flatten() {
                        if let Ok(sc) = std::fs::read_to_string(t.path().join("syscall")) {
                            let f: Vec<&str> = sc.split_whitespace().collect();
                            if f.len() >= 2 && f[0] == "1" && (f[1] == "0x1" || f[1] == "0x2") {
                                blocked = Some(format!("child {pid} blocked in write(fd {})", f[1]));
                            }
                        }
                    }
                }
                verdict = match blocked {
                    Some(b) => Outcome::Deadlock(b),
                    None => Outcome::Stuck(format!("watchdog fired; child {pid} not blocked in write on fd 1/2")),
                };
                unsafe {
                    libc::kill(pid, libc::SIGKILL);
                }
            }
            verdict
        }
    }
}

fn first_diff(a: &[u8], b: &[u8]) -> Option<usize> {
    a.iter().zip(b.iter()).position(|(x, y)| x != y).or(if a.len() != b.len() { Some(a.len().min(b.len())) } else { None })
}

fn script_nontrivial(s: &Script) -> bool {
    // a stream carries more than one pipe buffer while the other is still open at that point
    let mut closed = [false; 2];
    for t in &s.threads {
        for st in t {
            match st {
                Step::Out(n) if *n > 65536 && !closed[0] && (!closed[1] || s.threads.len() > 1) => return true,
                Step::Err(n) if *n > 65536 && !closed[1] && (!closed[0] || s.threads.len() > 1) => return true,
                Step::CloseOut => closed[0] = true,
                Step::CloseErr => closed[1] = true,
                _ => {}
            }
        }
    }
    false
}

fn run_children(ctx: &Ctx, n: usize) {
    let scratch = Scratch::new("c19");
    let scripts = ctx.generate("scripts", &script_strategy(), n);
    let watchdog = Duration::from_secs(30);
    // fixed, hand-picked shapes first (stderr-heavy before stdout, and vice versa)
    let mut all = vec![
        Script { threads: vec![vec![Step::Err(200_000), Step::Out(10)]], exit: 0, api_spawn: false, fail_out: None, fail_err: None },
        Script { threads: vec![vec![Step::Out(200_000), Step::Err(10)]], exit: 3, api_spawn: true, fail_out: None, fail_err: None },
        Script { threads: vec![vec![Step::Out(100_000)], vec![Step::Err(100_000)]], exit: 0, api_spawn: false, fail_out: None, fail_err: None },
        Script { threads: vec![vec![Step::CloseOut, Step::Err(150_000)]], exit: 0, api_spawn: false, fail_out: None, fail_err: None },
        Script { threads: vec![vec![Step::CloseErr, Step::Out(150_000)]], exit: 0, api_spawn: true, fail_out: None, fail_err: None },
        Script { threads: vec![vec![]], exit: 7, api_spawn: false, fail_out: None, fail_err: None },
    ];
    all.extend(scripts);
    for s in &all {
        ctx.eval();
        if s.threads.len() > 1 {
            ctx.class("child:two-threads");
        }
        if s.api_spawn {
            ctx.class("child:spawn_and_write_streams");
        } else {
            ctx.class("child:output_and_write_streams");
        }
        if s.fail_out.is_some() || s.fail_err.is_some() {
            ctx.class("child:a supplied writer fails mid-stream");
        }
        if script_nontrivial(s) {
            ctx.class("child:>1 pipe buffer on one stream while other open");
            ctx.nontrivial(hash_of(s));
            if ctx.samples_len() < 12 {
                ctx.sample(12, || script_json(s));
            }
        }
        match run_script(&scratch, s, watchdog) {
            Outcome::Done(r) => {
                if !ctx.check_case("child", r, || script_json(s)) {
                    // try to minimise: drop steps greedily while the failure persists
                    return;
                }
            }
            Outcome::Deadlock(why) => {
                ctx.check_case("child", Err(Fail::new("C19:deadlock", why)), || script_json(s));
                return;
            }
            Outcome::Stuck(why) => {
                ctx.inconclusive(format!("{why}; script {}", script_text(s)));
                return;
            }
        }
    }
}

/// "returns once both streams close": a child that closes both streams and keeps running for a while must not hold
/// spawn_and_write_streams back until it exits.
fn run_early_close(ctx: &Ctx, sleeps_ms: &[u64]) {
    let results = par_map(sleeps_ms, sleeps_ms.len().max(1), |ms| {
        let script = format!("x:5,o:70000,e:1000,co,ce,p:{}", ms * 1000);
        let mut wo: Vec<u8> = vec![];
        let mut we: Vec<u8> = vec![];
        let started = std::time::Instant::now();
        let r = Command::new(bin_dir().join("vchild")).arg(&script).stdin(std::process::Stdio::null()).spawn_and_write_streams(&mut wo, &mut we);
        match r {
            Err(e) => Err(Fail::new("C19:io-error", e.to_string())),
            Ok(mut child) => {
                let returned_after = started.elapsed();
                let still_running = matches!(child.try_wait(), Ok(None));
                let status = child.wait().map_err(|e| Fail::new("C19:io-error", e.to_string()));
                match status {
                    Err(f) => Err(f),
                    Ok(st) => {
                        if !still_running {
                            Err(Fail::new("C19:returns-only-after-exit", format!("child closed both streams and slept {ms} ms; spawn_and_write_streams returned after {returned_after:?} with the child already gone")))
                        } else if st.code() != Some(5) || wo.len() != 70000 || we.len() != 1000 {
                            Err(Fail::new("C19:early-close-output-differs", format!("status {:?}, {} / {} bytes", st.code(), wo.len(), we.len())))
                        } else {
                            Ok(())
                        }
                    }
                }
            }
        }
    });
    for (ms, r) in sleeps_ms.iter().zip(results) {
        ctx.eval();
        ctx.class("child:closes-both-streams-then-keeps-running");
        ctx.check_case("early-close", r, || json!({"early_close_sleep_ms": ms}));
    }
}

pub fn run(ctx: &Ctx) {
    ctx.set_rule("(1) child scripts: 0..8 steps of (stream, size in {0,1..200,4096,65536,65537,..262144}, pause), single-threaded interleaved or one thread per stream, early close of a stream, exit code, in 1 of 5 scripts a supplied writer that fails after 0/10/5000/70000 bytes (the call must still come back); otherwise the supplied writers accept at most 7 (and answer Interrupted on every third call) / 4096 / 100000 / unbounded bytes per write call (chosen per stream); run through output_and_write_streams and spawn_and_write_streams, compared bytewise with the script's per-stream content; children that close both streams and keep running for 3-6 s must not delay the return of spawn_and_write_streams. (2) MappedWrite: EXHAUSTIVE all byte strings of length <= L over {marker,a,b} (L=8 quick, 10 thorough) x all 2^(n-1) chunkings into write calls (+ zero-length writes on every fifth chunking) x finalisation by drop and by unwrap, mapping seg -> '[' seg ']' (every third chunking: a filtering mapping that maps segments starting with 'a' to nothing); sampled inputs <=200 bytes with add_prefix / map_utf8_lossy / repeat under random chunkings. (3) TeeWrite under the same chunkings, fed by write and (odd chunkings) by one write_vectored call over all chunks, with short-writing targets (1..3 bytes per write; odd bounds also answer Interrupted on every third call). MappedWrite chunkings with empty writes also flush between the write calls. Non-trivial: (1) a stream carries more than one 64 KiB pipe buffer while the other stream is still open; (2) input contains a marker and a write boundary falls inside a segment; distinct = hash of script / (input, chunking).");
    ctx.assume("deadlock is decided by a 30 s watchdog plus /proc/<child>/syscall showing the child blocked in write(2) on fd 1 or 2; any other watchdog expiry is reported as inconclusive (exit 2)");
    ctx.assume("the OS scheduler is not controlled; the blocking structure is controlled through the child's script");
    ctx.set_exhaustive(true);
    ctx.extra("exhaustive_subspace", json!("MappedWrite/TeeWrite inputs up to the stated length with all chunkings; child scripts are sampled"));
    for (_p, v) in ctx.regress_files() {
        replay(ctx, v["sub"].as_str().unwrap_or(""), &v["case"]);
    }
    let thorough = ctx.tier == Tier::Thorough;
    run_writers_exhaustive(ctx, if thorough { 10 } else { 8 });
    ctx.run_prop("mapped-long", long_strategy(), ctx.tier.pick(5_000, 200_000), long_json, |c| check_long(ctx, c));
    run_children(ctx, ctx.tier.pick(400, 6000));
    run_early_close(ctx, if thorough { &[3000, 3000, 4000, 5000, 6000, 3500] } else { &[3000, 4000] });
}

pub fn replay(ctx: &Ctx, sub: &str, case: &Value) {
    match sub {
        "mapped" => {
            ctx.eval();
            let input = case["input"].as_str().unwrap().as_bytes().to_vec();
            let fin = if case["fin"] == "Drop" { Fin::Drop } else { Fin::Unwrap };
            ctx.check_case(sub, check_mapped(&input, case["mask"].as_u64().unwrap() as u32, case["empties"].as_bool().unwrap(), fin), || case.clone());
        }
        "tee" => {
            ctx.eval();
            let input = case["input"].as_str().unwrap().as_bytes().to_vec();
            ctx.check_case(sub, check_tee(&input, case["mask"].as_u64().unwrap() as u32, case["max_a"].as_u64().unwrap() as usize, case["max_b"].as_u64().unwrap() as usize), || case.clone());
        }
        "mapped-long" => {
            let c = long_from_json(case);
            ctx.check_case(sub, check_long(ctx, &c), || case.clone());
        }
        "early-close" => run_early_close(ctx, &[case["early_close_sleep_ms"].as_u64().unwrap_or(3000)]),
        _ => {
            ctx.eval();
            let s = script_from_json(case);
            let scratch = Scratch::new("c19r");
            match run_script(&scratch, &s, Duration::from_secs(30)) {
                Outcome::Done(r) => {
                    ctx.check_case("child", r, || case.clone());
                }
                Outcome::Deadlock(why) => {
                    ctx.check_case("child", Err(Fail::new("C19:deadlock", why)), || case.clone());
                }
                Outcome::Stuck(why) => ctx.inconclusive(why),
            }
        }
    }
}
