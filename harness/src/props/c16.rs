//! C16 — libcnb-test removes every Docker resource and temp dir however the test ends.

use crate::core::{Check, Ctx, Fail, Scratch, hash_of};
use crate::trrun::{self, TrOutcome, argv};
use proptest::prelude::*;
use serde_json::{Value, json};
use std::path::Path;

#[derive(Clone, Debug)]
pub enum CStep {
    LogsNow,
    LogsWait,
    Port,
    ShellExec,
    Panic,
}

#[derive(Clone, Debug)]
pub enum Step {
    StartContainer { detached_ports: bool, inner: Vec<CStep> },
    RunShell,
    DownloadSbom,
    Panic,
    Rebuild(Box<Build>),
}

#[derive(Clone, Debug)]
pub struct Build {
    /// None | Some("current") | Some("workspace"): compile the crate in CARGO_MANIFEST_DIR as a buildpack
    crate_buildpack: Option<&'static str>,
    expect_failure: bool,
    pack_fails: bool,
    preprocessor: bool,
    /// this build fails while it is being prepared, before pack runs: 1 = the app directory does not exist,
    /// 2 = copying the fixture for the preprocessor fails (dangling symbolic link in the fixture)
    prep_fail: u8,
    steps: Vec<Step>,
}

#[derive(Clone, Debug)]
pub struct Scenario {
    build: Build,
    /// fail the n-th external command (1-based); None = no command fault
    fail_at: Option<u64>,
}

fn cstep_strategy() -> impl Strategy<Value = CStep> {
    prop_oneof![3 => Just(CStep::LogsNow), 2 => Just(CStep::LogsWait), 2 => Just(CStep::Port), 3 => Just(CStep::ShellExec), 1 => Just(CStep::Panic)]
}

fn build_strategy(depth: u32) -> BoxedStrategy<Build> {
    let step = if depth == 0 {
        prop_oneof![
            5 => (any::<bool>(), proptest::collection::vec(cstep_strategy(), 0..4)).prop_map(|(p, inner)| Step::StartContainer { detached_ports: p, inner }),
            2 => Just(Step::RunShell),
            2 => Just(Step::DownloadSbom),
            1 => Just(Step::Panic),
        ]
        .boxed()
    } else {
        prop_oneof![
            5 => (any::<bool>(), proptest::collection::vec(cstep_strategy(), 0..4)).prop_map(|(p, inner)| Step::StartContainer { detached_ports: p, inner }),
            2 => Just(Step::RunShell),
            2 => Just(Step::DownloadSbom),
            1 => Just(Step::Panic),
            3 => build_strategy(depth - 1).prop_map(|b| Step::Rebuild(Box::new(b))),
        ]
        .boxed()
    };
    (proptest::bool::weighted(0.25), proptest::bool::weighted(0.25), any::<bool>(), proptest::collection::vec(step, 0..5))
        .prop_map(|(expect_failure, pack_fails, preprocessor, mut steps)| {
            // a rebuild consumes the context: nothing may follow it
            if let Some(i) = steps.iter().position(|s| matches!(s, Step::Rebuild(_))) {
                steps.truncate(i + 1);
            }
            Build { crate_buildpack: None, expect_failure, pack_fails, preprocessor, prep_fail: 0, steps }
        })
        .boxed()
}

/// fault-free scenario trees (panics and expectation mismatches are injected by enumeration)
fn scenario_strategy() -> impl Strategy<Value = Build> {
    build_strategy(2).prop_map(|mut build| {
        fn clean(b: &mut Build) {
            b.steps.retain(|s| !matches!(s, Step::Panic));
            b.expect_failure = b.pack_fails;
            if b.pack_fails {
                // the image does not exist: containers cannot be started from it in a real setup
                b.steps.retain(|s| matches!(s, Step::Rebuild(_)));
            }
            for s in b.steps.iter_mut() {
                match s {
                    Step::StartContainer { inner, .. } => inner.retain(|c| !matches!(c, CStep::Panic)),
                    Step::Rebuild(inner) => clean(inner),
                    _ => {}
                }
            }
        }
        clean(&mut build);
        build
    })
}

/// number of places a panic can be injected (before every step / inner step and at the end of every closure)
fn panic_positions(b: &Build) -> usize {
    let mut n = b.steps.len() + 1;
    for s in &b.steps {
        match s {
            Step::StartContainer { inner, .. } => n += inner.len() + 1,
            Step::Rebuild(i) => n += panic_positions(i),
            _ => {}
        }
    }
    n
}

fn with_panic_at(b: &Build, pos: &mut isize) -> Build {
    let mut out = Build { crate_buildpack: b.crate_buildpack, expect_failure: b.expect_failure, pack_fails: b.pack_fails, preprocessor: b.preprocessor, prep_fail: b.prep_fail, steps: vec![] };
    for s in &b.steps {
        if *pos == 0 {
            out.steps.push(Step::Panic);
        }
        *pos -= 1;
        match s {
            Step::StartContainer { detached_ports, inner } => {
                let mut ni = vec![];
                for c in inner {
                    if *pos == 0 {
                        ni.push(CStep::Panic);
                    }
                    *pos -= 1;
                    ni.push(c.clone());
                }
                if *pos == 0 {
                    ni.push(CStep::Panic);
                }
                *pos -= 1;
                out.steps.push(Step::StartContainer { detached_ports: *detached_ports, inner: ni });
            }
            Step::Rebuild(i) => out.steps.push(Step::Rebuild(Box::new(with_panic_at(i, pos)))),
            other => out.steps.push(other.clone()),
        }
    }
    if !matches!(b.steps.last(), Some(Step::Rebuild(_))) {
        if *pos == 0 {
            out.steps.push(Step::Panic);
        }
    }
    *pos -= 1;
    out
}

fn builds_in(b: &Build) -> usize {
    1 + b.steps.iter().map(|s| if let Step::Rebuild(i) = s { builds_in(i) } else { 0 }).sum::<usize>()
}

fn with_mismatch_at(b: &Build, idx: &mut isize) -> Build {
    let mut out = b.clone();
    if *idx == 0 {
        out.expect_failure = !out.expect_failure;
    }
    *idx -= 1;
    out.steps = b.steps.iter().map(|s| if let Step::Rebuild(i) = s { Step::Rebuild(Box::new(with_mismatch_at(i, idx))) } else { s.clone() }).collect();
    out
}

fn with_prep_fail_at(b: &Build, idx: &mut isize, kind: u8) -> Build {
    let mut out = b.clone();
    if *idx == 0 {
        out.prep_fail = kind;
    }
    *idx -= 1;
    out.steps = b.steps.iter().map(|s| if let Step::Rebuild(i) = s { Step::Rebuild(Box::new(with_prep_fail_at(i, idx, kind))) } else { s.clone() }).collect();
    out
}

fn build_json(b: &Build, pack_ordinal: &mut u64, fails: &mut Vec<u64>) -> Value {
    *pack_ordinal += 1;
    if b.pack_fails {
        fails.push(*pack_ordinal);
    }
    let steps: Vec<Value> = b
        .steps
        .iter()
        .map(|s| match s {
            Step::StartContainer { detached_ports, inner } => json!({"start_container": {
                "cfg": {"entrypoint": null, "command": ["serve"], "env": [["PORT", "8080"]], "ports": if *detached_ports { json!([8080, 9090]) } else if inner.iter().any(|c| matches!(c, CStep::Port)) { json!([8080]) } else { json!([]) }, "mounts": []},
                "inner": inner.iter().map(|c| match c {
                    CStep::LogsNow => json!("logs_now"),
                    CStep::LogsWait => json!("logs_wait"),
                    CStep::Port => json!({"port": 8080}),
                    CStep::ShellExec => json!({"shell_exec": "ls -la"}),
                    CStep::Panic => json!("panic"),
                }).collect::<Vec<_>>()}}),
            Step::RunShell => json!({"run_shell": "echo hi"}),
            Step::DownloadSbom => json!("download_sbom"),
            Step::Panic => json!("panic"),
            Step::Rebuild(inner) => json!({"rebuild": build_json(inner, pack_ordinal, fails)}),
        })
        .collect();
    let app_dir = match b.prep_fail {
        1 => "fixtures/does-not-exist",
        2 => "fixtures/broken-app",
        _ => "fixtures/app",
    };
    json!({"cfg": {"builder": "heroku/builder:24", "app_dir": app_dir, "buildpacks": ["heroku/nodejs"], "env": [["A", "1"]], "expect_failure": b.expect_failure, "preprocessor": b.preprocessor || b.prep_fail == 2, "crate_buildpack": b.crate_buildpack}, "steps": steps})
}

/// (scenario json for the worker, pack-fail sequence)
fn scenario_json(s: &Scenario) -> (Value, String) {
    let mut ord = 0;
    let mut fails = vec![];
    let b = build_json(&s.build, &mut ord, &mut fails);
    // exit code / message flavour of the injected failure: varies with the fault position and the tree
    let flavour = (s.fail_at.unwrap_or(0) as usize * 7 + ord as usize * 3 + b.to_string().len()) % 25;
    (json!({"build": b, "fail_at": s.fail_at, "fail_flavour": flavour}), fails.iter().map(|n| n.to_string()).collect::<Vec<_>>().join(","))
}

fn case_json(s: &Scenario) -> Value {
    let (v, seq) = scenario_json(s);
    json!({"scenario": v, "pack_fail_seq": seq})
}

/// The oracle: an invariant over the recorded history of external commands and the final state.
pub fn judge(o: &TrOutcome, fail_at: Option<u64>) -> Check {
    // resources this run created, in order of creation
    let mut images: Vec<String> = vec![];
    let mut volumes: Vec<String> = vec![];
    let mut containers: Vec<(String, bool)> = vec![]; // (name, detached)
    for e in &o.log {
        let a = argv(e);
        let prog = e["prog"].as_str().unwrap_or("");
        if prog == "pack" && a.first().map(String::as_str) == Some("build") {
            if let Some(img) = a.get(1) {
                if !images.contains(img) {
                    images.push(img.clone());
                }
            }
            for (i, t) in a.iter().enumerate() {
                if t == "--cache" {
                    if let Some(name) = a.get(i + 1).and_then(|v| v.split(';').find_map(|kv| kv.strip_prefix("name="))) {
                        if !volumes.contains(&name.to_string()) {
                            volumes.push(name.to_string());
                        }
                    }
                }
            }
        }
        if prog == "docker" && a.first().map(String::as_str) == Some("run") {
            if let Some(i) = a.iter().position(|t| t == "--name") {
                if let Some(n) = a.get(i + 1) {
                    let img_idx = a.iter().position(|t| images.contains(t)).unwrap_or(a.len());
                    let detached = a[..img_idx].iter().any(|t| t == "--detach");
                    containers.push((n.clone(), detached));
                }
            }
        }
    }
    let names_in = |e: &Value, name: &str| argv(e).iter().any(|t| t == name || t.contains(&format!("name={name}")));
    let removal_kind = |e: &Value| -> Option<&'static str> {
        let a = argv(e);
        match (e["prog"].as_str().unwrap_or(""), a.first().map(String::as_str), a.get(1).map(String::as_str)) {
            ("docker", Some("rm"), _) => Some("rm"),
            ("docker", Some("rmi"), _) => Some("rmi"),
            ("docker", Some("volume"), Some("remove" | "rm")) => Some("volume"),
            _ => None,
        }
    };
    // --force, --force=true, -f, or -f combined with other short flags (-fv)
    let forced = |e: &Value| argv(e).iter().any(|t| t == "--force" || t == "--force=true" || (t.starts_with('-') && !t.starts_with("--") && t.contains('f')));
    let failed_n: Option<u64> = o.log.iter().find(|e| e["failed"] == true && e["extra"]["scripted_pack_failure"] != true).and_then(|e| e["n"].as_u64());
    let fault_is_removal_of = |name: &str| o.log.iter().any(|e| Some(e["n"].as_u64().unwrap_or(0)) == failed_n && removal_kind(e).is_some() && names_in(e, name));

    // 1. detached containers are force-removed, after the last command that names them
    for (name, detached) in &containers {
        if !*detached {
            continue;
        }
        let idxs: Vec<usize> = o.log.iter().enumerate().filter(|(_, e)| names_in(e, name)).map(|(i, _)| i).collect();
        let rms: Vec<usize> = idxs.iter().copied().filter(|i| removal_kind(&o.log[*i]) == Some("rm")).collect();
        ensure!(!rms.is_empty(), "C16:detached-container-not-removed", "container {name} was started detached but never removed (exit {:?})", o.code);
        ensure!(rms.iter().all(|i| forced(&o.log[*i])), "C16:container-removal-not-forced", "docker rm {name} without --force");
        ensure!(*rms.last().unwrap() == *idxs.last().unwrap(), "C16:container-used-after-removal", "a command names container {name} after its removal");
        // (the property demands "exactly once" for the image and the volumes only; a repeated forced container removal is harmless)
    }
    // 2. image and both cache volumes: exactly one forced removal, after the last use
    for img in &images {
        let idxs: Vec<usize> = o.log.iter().enumerate().filter(|(_, e)| names_in(e, img)).map(|(i, _)| i).collect();
        let rmis: Vec<usize> = idxs.iter().copied().filter(|i| removal_kind(&o.log[*i]) == Some("rmi")).collect();
        ensure!(!rmis.is_empty(), "C16:image-not-removed", "image {img} never removed (exit {:?})", o.code);
        ensure!(rmis.len() == 1, "C16:image-removed-more-than-once", "image {img} removed {} times", rmis.len());
        ensure!(forced(&o.log[rmis[0]]), "C16:image-removal-not-forced", "docker rmi {img} without --force");
        let last_use = o.log.iter().enumerate().filter(|(_, e)| argv(e).iter().any(|t| t == img) && removal_kind(e).is_none()).map(|(i, _)| i).last().unwrap_or(0);
        ensure!(rmis[0] > last_use, "C16:image-removed-before-last-use", "image {img} removed at command #{} but used at #{}", rmis[0] + 1, last_use + 1);
    }
    for vol in &volumes {
        let rms: Vec<usize> = o.log.iter().enumerate().filter(|(_, e)| removal_kind(e) == Some("volume") && argv(e).iter().any(|t| t == vol)).map(|(i, _)| i).collect();
        ensure!(!rms.is_empty(), "C16:cache-volume-not-removed", "volume {vol} never removed (exit {:?})", o.code);
        ensure!(rms.len() == 1, "C16:cache-volume-removed-more-than-once", "volume {vol} removed {} times", rms.len());
        ensure!(forced(&o.log[rms[0]]), "C16:volume-removal-not-forced", "volume remove {vol} without --force");
        let last_use = o.log.iter().enumerate().filter(|(_, e)| names_in(e, vol) && removal_kind(e).is_none()).map(|(i, _)| i).last().unwrap_or(0);
        ensure!(rms[0] > last_use, "C16:volume-removed-before-last-use", "volume {vol}");
    }
    // 3. nothing is removed that the run did not create
    for e in &o.log {
        if removal_kind(e).is_some() {
            for t in argv(e).iter().skip(1).filter(|t| !t.starts_with('-') && *t != "remove" && *t != "rm") {
                // a name that existed before the run is foreign; a name of the run's own that never came into existence (the
                // build failed before pack ran) removes nothing
                let ours = images.contains(t) || volumes.contains(t) || containers.iter().any(|(n, _)| n == t);
                let existed_before = o.foreign.iter().any(|f| f.split_once('/').map(|x| x.1).unwrap_or(f) == t.as_str());
                ensure!(ours || !existed_before, "C16:foreign-resource-removed", "removal command names {t:?} which existed before the run: {:?}", argv(e));
            }
        }
    }
    for f in &o.foreign {
        ensure!(o.state_after.contains(f), "C16:foreign-resource-removed", "{f} existed before the run and is gone");
    }
    // 4. unless the injected fault is the removal itself, nothing created by the run remains
    for left in o.state_after.difference(&o.foreign) {
        let name = left.split_once('/').map(|x| x.1).unwrap_or(left);
        if fault_is_removal_of(name) {
            continue;
        }
        return Err(Fail::new("C16:resource-left-behind", format!("{left} still exists after the run (exit {:?}, fault at command {:?})", o.code, fail_at)));
    }
    // 5. no temporary directory left
    ensure!(o.tmp_left.is_empty(), "C16:temp-dir-left-behind", "TMPDIR still contains {:?} (exit {:?})", o.tmp_left, o.code);
    ensure!(o.code.is_some() && o.code != Some(134), "C16:aborted", "worker ended abnormally: {:?} {}", o.code, o.stderr.chars().take(300).collect::<String>());
    Ok(())
}

fn has_fault_after_first_pack(s: &Scenario, o: &TrOutcome) -> bool {
    let detached = o.log.iter().any(|e| e["prog"] == "docker" && argv(e).first().map(String::as_str) == Some("run") && argv(e).iter().any(|t| t == "--detach"));
    let fault = o.log.iter().any(|e| e["failed"] == true) || o.code == Some(101);
    let _ = s;
    detached && fault
}

/// What one executed variant contributes to the evidence; produced on worker threads, absorbed on the main thread.
struct OneResult {
    check: Check,
    ncmd: usize,
    classes: Vec<String>,
    nontrivial: Option<u64>,
    sample: Option<(u64, Value)>,
}

fn exec_one(scratch: &Path, s: &Scenario, kind: &str) -> OneResult {
    let mut classes = vec![format!("fault:{kind}")];
    let (v, seq) = scenario_json(s);
    let root = scratch.join(format!("s-{:016x}-{}", hash_of(&(v.to_string(), &seq)), crate::core::uniq()));
    let needs_toolchain = v.to_string().contains("\"crate_buildpack\":\"");
    let o = trrun::run_scenario_env(&root, &v, s.fail_at, &seq, needs_toolchain);
    let done = |check: Check, classes: Vec<String>, n: usize| {
        let _ = crate::fsutil::force_remove(&root);
        OneResult { check, ncmd: n, classes, nontrivial: None, sample: None }
    };
    if needs_toolchain {
        classes.push("crate-buildpack-scenario".into());
        // the packaged buildpack handed to pack must live below TMPDIR (and be gone afterwards, checked by the oracle)
        for e in &o.log {
            let a = argv(e);
            if e["prog"] == "pack" && a.first().map(String::as_str) == Some("build") {
                for (i, _) in a.iter().enumerate().filter(|(_, t)| *t == "--buildpack") {
                    let bp = a.get(i + 1).cloned().unwrap_or_default();
                    // compiled buildpacks are passed as absolute paths; registry ids (heroku/nodejs) are not paths
                    // "no temporary ... buildpack directory is left behind": wherever the compiled buildpack was put, it
                    // must be gone once the test has ended
                    if bp.starts_with('/') && Path::new(&bp).exists() {
                        return done(Err(Fail::new("C16:compiled-buildpack-left-behind", format!("--buildpack {bp} still exists after the run"))), classes, o.log.len());
                    }
                }
            }
        }
        if o.code == Some(101) && o.stderr.contains("Error packaging") {
            return done(Err(Fail::new("harness:crate-buildpack-did-not-compile", o.stderr.chars().take(600).collect::<String>())), classes, o.log.len());
        }
    }
    classes.push(match o.code {
        Some(0) => "outcome:test-passed".into(),
        Some(101) => "outcome:test-panicked".into(),
        _ => "outcome:other".into(),
    });
    if o.log.iter().filter(|e| e["prog"] == "pack" && argv(e).first().map(String::as_str) == Some("build")).count() >= 2 {
        classes.push("has-rebuild".into());
    }
    let mut nontrivial = None;
    let mut sample = None;
    if has_fault_after_first_pack(s, &o) {
        classes.push("nontrivial".into());
        let h = hash_of(&v.to_string());
        nontrivial = Some(h);
        sample = Some((h, json!({"scenario": v, "commands": o.log.iter().map(|e| format!("{} {}{}", e["prog"].as_str().unwrap_or(""), argv(e).join(" "), if e["failed"] == true { "   <- FAILED" } else { "" })).collect::<Vec<_>>(), "exit": o.code})));
    }
    let r = judge(&o, s.fail_at);
    let n = o.log.len();
    let _ = crate::fsutil::force_remove(&root);
    OneResult { check: r, ncmd: n, classes, nontrivial, sample }
}

fn absorb_one(ctx: &Ctx, r: OneResult) -> (Check, usize) {
    ctx.eval();
    for c in &r.classes {
        ctx.class(c);
    }
    ctx.extra_add("external_commands_recorded", r.ncmd as u64);
    if let Some(h) = r.nontrivial {
        ctx.nontrivial(h);
    }
    if let Some((h, v)) = r.sample {
        if ctx.samples_len() < 2 || h % 197 == 0 {
            ctx.sample(4, || v);
        }
    }
    (r.check, r.ncmd)
}

/// one fault-free tree and EVERY single fault on it (the variants run in parallel, results are absorbed in a fixed order)
fn check(ctx: &Ctx, scratch: &Path, b: &Build, stash: &std::cell::RefCell<Option<Value>>) -> Check {
    let base = Scenario { build: b.clone(), fail_at: None };
    let keep = |s: &Scenario, r: Check| -> Check {
        if r.is_err() {
            *stash.borrow_mut() = Some(case_json(s));
        }
        r
    };
    let (r, ncmd) = absorb_one(ctx, exec_one(scratch, &base, "none"));
    keep(&base, r)?;
    let mut variants: Vec<(Scenario, &'static str, String)> = vec![];
    for k in 1..=ncmd as u64 {
        variants.push((Scenario { build: b.clone(), fail_at: Some(k) }, "command-fails", format!("with external command #{k} failing")));
    }
    for p in 0..panic_positions(b) {
        let mut pos = p as isize;
        variants.push((Scenario { build: with_panic_at(b, &mut pos), fail_at: None }, "panic", format!("with a panic at position {p}")));
    }
    for m in 0..builds_in(b) {
        let mut idx = m as isize;
        variants.push((Scenario { build: with_mismatch_at(b, &mut idx), fail_at: None }, "unexpected-pack-result", format!("with an unexpected pack result at build {m}")));
    }
    for m in 0..builds_in(b) {
        for (kind, what) in [(1u8, "a missing app directory"), (2u8, "a fixture that cannot be copied for the preprocessor")] {
            let mut idx = m as isize;
            variants.push((Scenario { build: with_prep_fail_at(b, &mut idx, kind), fail_at: None }, "build-fails-before-pack", format!("with build {m} failing before pack runs ({what})")));
        }
    }
    // crate-buildpack variants each run a cargo build: fewer at a time
    let threads = if b.crate_buildpack.is_some() { (crate::core::ncpu() / 4).max(2) } else { crate::core::ncpu() };
    let results = crate::core::par_map(&variants, threads, |(sc, kind, _)| exec_one(scratch, sc, kind));
    let mut first: Check = Ok(());
    for ((sc, _, what), r) in variants.iter().zip(results) {
        let (r, _) = absorb_one(ctx, r);
        if first.is_ok() {
            if let Err(f) = keep(sc, r) {
                first = Err(Fail::new(f.sig, format!("{what}: {}", f.msg)));
            }
        }
    }
    first
}

/// trees whose first build compiles the crate in CARGO_MANIFEST_DIR (no containers: the host triple has no container platform)
fn crate_scenario_strategy() -> impl Strategy<Value = Build> {
    (any::<bool>(), any::<bool>(), proptest::collection::vec(any::<bool>(), 0..3), proptest::option::of((any::<bool>(), any::<bool>()))).prop_map(|(ws, preprocessor, sboms, rebuild)| {
        let kind = if ws { "workspace" } else { "current" };
        let mut steps: Vec<Step> = sboms.iter().map(|_| Step::DownloadSbom).collect();
        if let Some((pre2, crate2)) = rebuild {
            steps.push(Step::Rebuild(Box::new(Build { crate_buildpack: if crate2 { Some(kind) } else { None }, expect_failure: false, pack_fails: false, preprocessor: pre2, prep_fail: 0, steps: vec![Step::DownloadSbom] })));
        }
        Build { crate_buildpack: Some(kind), expect_failure: false, pack_fails: false, preprocessor, prep_fail: 0, steps }
    })
}

pub fn run(ctx: &Ctx) {
    ctx.set_rule("scenario trees up to depth 3 built from build / rebuild (reusing the image) / start_container (detached; logs_now, logs_wait, address_for_port, shell_exec, panic inside) / run_shell_command / download_sbom_files / panic, both expected pack results x pack succeeding/failing, with/without app preprocessor, interpreted by a worker process through the public TestRunner API against stand-in docker and pack executables that record every argv and keep a state directory pre-seeded with foreign images/volumes/containers; for every generated fault-free tree EVERY single fault is enumerated: no fault; the k-th external command (pack build, docker run, logs, port, exec, sbom download, rm, rmi, volume rm) exiting non-zero for every k; a panic at every step position of every closure; an unexpected pack result at every build node; every build or rebuild failing before pack runs (app directory missing; fixture with a dangling link that cannot be copied for the preprocessor). Oracle: invariant over the recorded command history and the final state after the worker has ended: detached containers force-removed once after their last use; image and both cache volumes force-removed exactly once after their last use (once in total across rebuild chains); removals name only identifiers of this run and all foreign resources still exist; nothing created by the run remains unless the failed command was that very removal; TMPDIR empty. Non-trivial: the scenario starts >= 1 detached container and contains a fault (panic or failing command); distinct = hash of the scenario.");
    ctx.assume("crate-buildpack scenarios (BuildpackReference::CurrentCrate / WorkspaceBuildpack) compile a dependency-free crate for the host gnu triple and therefore start no containers");
    ctx.assume("docker and pack are modelled by a stand-in (exit codes, --force semantics: forced removal of a missing name succeeds); single faults only");
    let scratch = Scratch::new("c16");
    for (_p, v) in ctx.regress_files() {
        replay(ctx, "", &v["case"]);
    }
    // the replay file holds the specific failing variant (tree + fault), stashed by the oracle run on the shrunk tree
    let stash: std::cell::RefCell<Option<Value>> = std::cell::RefCell::new(None);
    ctx.run_prop(
        "scenarios",
        scenario_strategy(),
        ctx.tier.pick(400, 8000),
        |b| stash.borrow().clone().unwrap_or_else(|| case_json(&Scenario { build: b.clone(), fail_at: None })),
        |b| {
            ctx.class("fault-free-tree");
            check(ctx, &scratch.path, b, &stash)
        },
    );
    // a small class that really compiles and packages a crate (CurrentCrate / WorkspaceBuildpack), with every single fault
    let stash2: std::cell::RefCell<Option<Value>> = std::cell::RefCell::new(None);
    ctx.run_prop(
        "crate-buildpack",
        crate_scenario_strategy(),
        ctx.tier.pick(8, 160),
        |b| stash2.borrow().clone().unwrap_or_else(|| case_json(&Scenario { build: b.clone(), fail_at: None })),
        |b| {
            ctx.class("fault-free-tree:crate-buildpack");
            check(ctx, &scratch.path, b, &stash2)
        },
    );
}

pub fn replay(ctx: &Ctx, _sub: &str, case: &Value) {
    let scratch = Scratch::new("c16r");
    let root = scratch.path.join("replay");
    let v = &case["scenario"];
    let fail_at = v["fail_at"].as_u64();
    let o = trrun::run_scenario_env(&root, v, fail_at, case["pack_fail_seq"].as_str().unwrap_or(""), v.to_string().contains("\"crate_buildpack\":\""));
    ctx.eval();
    ctx.check_case("replay", judge(&o, fail_at), || case.clone());
}
