//! C03 — layer env is persisted in the spec's on-disk layout and reads back unchanged.

use crate::core::{Check, Ctx, Fail, Scratch, hash_of, pick_idx};
use crate::envmodel::*;
use crate::fsutil::{self, Kind, Snapshot};
use libcnb::layer_env::LayerEnv;
use proptest::prelude::*;
use serde_json::{Value, json};
use std::collections::BTreeMap;
use std::os::unix::ffi::OsStringExt;
use std::path::{Path, PathBuf};

// ---------------- generators ----------------

pub fn name_strategy() -> impl Strategy<Value = Vec<u8>> {
    let byte = prop_oneof![
        10 => prop_oneof![Just(b'A'), Just(b'b'), Just(b'_'), Just(b'0')],
        4 => Just(b'.'),
        // no '=': it cannot occur in the name of an environment variable (a validating writer may refuse it)
        2 => prop_oneof![Just(b' '), Just(b'-'), Just(b'\n'), Just(b'*'), Just(b'\\')],
        2 => prop_oneof![Just(0xffu8), Just(0xc3u8), Just(0x80u8), Just(0xe2u8)],
        1 => (1u8..=255).prop_filter("no slash", |b| *b != b'/'),
    ];
    prop_oneof![
        2 => prop_oneof![Just(b"PATH".to_vec()), Just(b"A.B".to_vec()), Just(b".x".to_vec()), Just(b"x.".to_vec()), Just(b"A.append".to_vec()), Just(b"..".to_vec()), Just(b".".to_vec()), Just(b"...".to_vec()), Just(b"A.override".to_vec()), Just(b"a.b.c".to_vec()), Just(b".append".to_vec())],
        5 => proptest::collection::vec(byte, 1..12),
        1 => proptest::collection::vec(prop_oneof![Just(b'N'), Just(b'.')], 40..49),
    ]
}

pub fn value_strategy() -> impl Strategy<Value = Vec<u8>> {
    prop_oneof![
        2 => Just(vec![]),
        1 => Just(b"\n".to_vec()),
        1 => Just(b"value with trailing newline\n".to_vec()),
        1 => Just(vec![0u8]),
        6 => proptest::collection::vec(any::<u8>(), 0..24),
        1 => proptest::collection::vec(any::<u8>(), 150..200),
    ]
}

/// valid ProcessType strings that are usable as directory names and cannot be confused with a launch-scope file
pub fn process_name_strategy() -> impl Strategy<Value = String> {
    prop_oneof![
        3 => Just("web".to_string()),
        2 => Just("worker".to_string()),
        3 => "[A-Za-z0-9._-]{1,10}".prop_filter("dir name / suffix ambiguity", |s| {
            s != "." && s != ".." && !["append", "default", "delim", "override", "prepend"].iter().any(|b| s.rsplit('.').next() == Some(*b) && s.contains('.'))
        }),
    ]
}

pub fn scope_strategy() -> impl Strategy<Value = Sc> {
    prop_oneof![
        3 => Just(Sc::All),
        3 => Just(Sc::Build),
        3 => Just(Sc::Launch),
        3 => process_name_strategy().prop_map(Sc::Process),
    ]
}

pub fn entry_strategy() -> impl Strategy<Value = EnvEntry> {
    (scope_strategy(), any::<u16>(), name_strategy(), value_strategy()).prop_map(|(scope, b, name, value)| EnvEntry { scope, beh: BEHS[pick_idx(b, 5)], name, value })
}

pub fn entries_strategy(max: usize) -> impl Strategy<Value = Vec<EnvEntry>> {
    proptest::collection::vec(entry_strategy(), 0..max)
}

fn env0_strategy() -> impl Strategy<Value = Vec<(u16, Vec<u8>)>> {
    proptest::collection::vec((any::<u16>(), value_strategy()), 0..4)
}

// ---------------- write side ----------------

#[derive(Clone, Debug)]
pub struct WriteCase {
    /// an earlier write that FAILS part-way (a variable name too long for a file name): nothing of it may survive
    poison: Option<(u8, u8)>,
    old: Vec<EnvEntry>,
    new: Vec<EnvEntry>,
    env0s: Vec<Vec<(u16, Vec<u8>)>>,
}

fn write_case_json(c: &WriteCase) -> Value {
    json!({"poison": c.poison.map(|(a, b)| json!([a, b])), "old": entries_to_json(&c.old), "new": entries_to_json(&c.new), "env0s": c.env0s.iter().map(|e| e.iter().map(|(i, v)| json!([i, crate::core::bytes_to_json(v)])).collect::<Vec<_>>()).collect::<Vec<_>>()})
}
fn write_case_from_json(v: &Value) -> WriteCase {
    WriteCase {
        poison: v["poison"].as_array().map(|a| (a[0].as_u64().unwrap() as u8, a[1].as_u64().unwrap() as u8)),
        old: entries_from_json(&v["old"]),
        new: entries_from_json(&v["new"]),
        env0s: v["env0s"].as_array().unwrap().iter().map(|e| e.as_array().unwrap().iter().map(|p| (p[0].as_u64().unwrap() as u16, crate::core::json_to_bytes(&p[1]))).collect()).collect(),
    }
}

fn make_canary(dir: &Path) {
    std::fs::create_dir_all(dir.join("exec.d")).unwrap();
    std::fs::create_dir_all(dir.join("data/nested")).unwrap();
    std::fs::create_dir_all(dir.join("envoy")).unwrap();
    std::fs::write(dir.join("exec.d/p"), b"#!/bin/sh\n").unwrap();
    std::fs::write(dir.join("data/nested/file"), b"payload").unwrap();
    std::fs::write(dir.join("env.txt"), b"not an env dir").unwrap();
    std::fs::write(dir.join("envoy/x.append"), b"looks like env").unwrap();
    std::fs::write(dir.join("env.launchx"), b"file with env.launch prefix").unwrap();
    std::os::unix::fs::symlink("data/nested/file", dir.join("link")).unwrap();
}

fn is_env_path(p: &[u8]) -> bool {
    for d in ["env", "env.build", "env.launch"] {
        if p == d.as_bytes() || (p.starts_with(d.as_bytes()) && p.get(d.len()) == Some(&b'/')) {
            return true;
        }
    }
    false
}

fn split_snapshot(s: &Snapshot) -> (BTreeMap<Vec<u8>, Vec<u8>>, Vec<Vec<u8>>, Snapshot) {
    // (regular env files, other env-dir entries that are not directories, the rest)
    let mut files = BTreeMap::new();
    let mut odd = vec![];
    let mut rest = Snapshot::new();
    for (p, e) in s {
        if is_env_path(p) {
            match e.kind {
                Kind::File => {
                    files.insert(p.clone(), e.data.clone());
                }
                Kind::Dir => {}
                _ => odd.push(p.clone()),
            }
        } else {
            rest.insert(p.clone(), e.clone());
        }
    }
    (files, odd, rest)
}

fn env0_map(e: &[(u16, Vec<u8>)], names: &[Vec<u8>]) -> EnvMap {
    let mut m = EnvMap::new();
    let mut pool: Vec<Vec<u8>> = names.to_vec();
    pool.push(b"UNRELATED".to_vec());
    for (i, v) in e {
        m.insert(pool[pick_idx(*i, pool.len())].clone(), v.clone());
    }
    m
}

fn queries_for(entries: &[EnvEntry]) -> Vec<Sc> {
    let mut q = vec![Sc::All, Sc::Build, Sc::Launch, Sc::Process("unknown-process".into())];
    for e in entries {
        if let Sc::Process(_) = &e.scope {
            if !q.contains(&e.scope) {
                q.push(e.scope.clone());
            }
        }
    }
    q
}

fn read_fail(e: &std::io::Error, entries_have_process: bool) -> Fail {
    let isdir = e.raw_os_error() == Some(libc::EISDIR);
    if isdir && entries_have_process {
        Fail::new("C03:process-env-unreadable", format!("read_from_layer_dir fails on a layer with a per-process env directory: {e}"))
    } else {
        Fail::new("C03:read-failed", e.to_string())
    }
}

/// compare a LayerEnv read from disk with the reference semantics of `entries` for all scopes and starting envs
fn compare_apply(read: &LayerEnv, entries: &[EnvEntry], implicit: &[Implicit], env0s: &[EnvMap]) -> Check {
    for q in queries_for(entries) {
        for e0 in env0s {
            let got = from_env(&read.apply(q.to_libcnb(), &to_env(e0)));
            let want = ref_apply(entries, implicit, &q, e0);
            if got != want {
                let sig = if matches!(q, Sc::Process(_)) && entries.iter().any(|e| e.scope == q) { "C03:process-env-not-read-back" } else { "C03:read-back-applies-differently" };
                return Err(Fail::new(sig, format!("scope {q:?}, env0 {}: got {} want {}", envmap_to_json(e0), envmap_to_json(&got), envmap_to_json(&want))));
            }
        }
    }
    Ok(())
}

fn check_write(ctx: &Ctx, scratch: &Path, c: &WriteCase) -> Check {
    ctx.eval();
    let dir = scratch.join(format!("w-{:016x}", hash_of(&write_case_json(c).to_string())));
    let _ = fsutil::force_remove(&dir);
    std::fs::create_dir_all(&dir).unwrap();
    make_canary(&dir);
    let (_, _, canary_before) = split_snapshot(&fsutil::snapshot(&dir));
    let r = (|| -> Check {
        if let Some((scope_sel, beh_sel)) = c.poison {
            // entries are written in (behaviour, name) order: a few good ones first, then one whose file name is too long
            let scope = [Sc::All, Sc::Build, Sc::Launch, Sc::Process("web".into())][scope_sel as usize % 4].clone();
            let beh = BEHS[beh_sel as usize % 5];
            let mut poisoned = vec![
                EnvEntry { scope: scope.clone(), beh: Beh::Append, name: b"A_STAGED_BEFORE_THE_FAILURE".to_vec(), value: b"stale".to_vec() },
                EnvEntry { scope: scope.clone(), beh, name: b"B_STAGED".to_vec(), value: b"stale".to_vec() },
                EnvEntry { scope: scope.clone(), beh: Beh::Prepend, name: vec![b'N'; 250], value: b"x".to_vec() },
            ];
            poisoned.push(EnvEntry { scope: Sc::Launch, beh: Beh::Override, name: b"ZZ".to_vec(), value: b"stale".to_vec() });
            // the result (an error) is not judged; what the directory looks like after the NEXT successful write is
            let _ = to_layer_env(&poisoned).write_to_layer_dir(&dir);
        }
        let old = to_layer_env(&c.old);
        old.write_to_layer_dir(&dir).map_err(|e| Fail::new("C03:write-failed", format!("old: {e}")))?;
        let (files_old, _, _) = split_snapshot(&fsutil::snapshot(&dir));
        ensure!(files_old == render(&c.old), "C03:written-files-differ", "first write: {}", describe_diff(&files_old, &render(&c.old)));
        let new = to_layer_env(&c.new);
        new.write_to_layer_dir(&dir).map_err(|e| Fail::new("C03:write-failed", format!("new: {e}")))?;
        let snap = fsutil::snapshot(&dir);
        let (files, odd, canary_after) = split_snapshot(&snap);
        let want = render(&c.new);
        if files != want {
            let stale = files.keys().any(|k| !want.contains_key(k) && files_old.contains_key(k));
            let sig = if stale { "C03:stale-env-file-survives" } else { "C03:written-files-differ" };
            return Err(Fail::new(sig, describe_diff(&files, &want)));
        }
        ensure!(odd.is_empty(), "C03:non-regular-entry-in-env-dir", "{:?}", odd.iter().map(|p| fsutil::show_path(p)).collect::<Vec<_>>());
        let d = fsutil::diff(&canary_before, &canary_after, 5);
        ensure!(d.is_empty(), "C03:write-touches-other-content", "{d:?}");
        // read back
        let has_proc = c.new.iter().any(|e| matches!(e.scope, Sc::Process(_)));
        let read = LayerEnv::read_from_layer_dir(&dir).map_err(|e| read_fail(&e, has_proc))?;
        // "reads back unchanged" is judged the way the statement puts it — applies identically — not by structural
        // equality of LayerEnv's private representation
        let names: Vec<Vec<u8>> = c.new.iter().map(|e| e.name.clone()).collect();
        let mut env0s: Vec<EnvMap> = c.env0s.iter().map(|e| env0_map(e, &names)).collect();
        env0s.push(EnvMap::new());
        compare_apply(&read, &c.new, &[], &env0s)
    })();
    let _ = fsutil::force_remove(&dir);
    r
}

fn describe_diff(got: &BTreeMap<Vec<u8>, Vec<u8>>, want: &BTreeMap<Vec<u8>, Vec<u8>>) -> String {
    let mut out = vec![];
    for (k, v) in want {
        match got.get(k) {
            None => out.push(format!("missing file {:?}", fsutil::show_path(k))),
            Some(g) if g != v => out.push(format!("file {:?} holds {:?}, expected {:?}", fsutil::show_path(k), String::from_utf8_lossy(g), String::from_utf8_lossy(v))),
            _ => {}
        }
    }
    for k in got.keys() {
        if !want.contains_key(k) {
            out.push(format!("unexpected file {:?}", fsutil::show_path(k)));
        }
    }
    out.truncate(6);
    out.join("; ")
}

fn write_nontrivial(c: &WriteCase) -> bool {
    let old_r = render(&c.old);
    let new_r = render(&c.new);
    let scopes: std::collections::BTreeSet<&Sc> = c.new.iter().map(|e| &e.scope).collect();
    let odd_name = c.new.iter().any(|e| e.name.contains(&b'.') || std::str::from_utf8(&e.name).is_err());
    let proc = c.new.iter().any(|e| matches!(e.scope, Sc::Process(_)));
    old_r != new_r && old_r.keys().any(|k| !new_r.contains_key(k)) && (scopes.len() >= 2 || odd_name || proc)
}

// ---------------- read side ----------------

#[derive(Clone, Debug)]
pub enum Suffix {
    None,
    Known(Beh),
    Unknown(Vec<u8>),
}

#[derive(Clone, Debug)]
pub struct RFile {
    scope: Sc,
    name: Vec<u8>,
    suffix: Suffix,
    value: Vec<u8>,
}

#[derive(Clone, Debug)]
pub struct ReadCase {
    files: Vec<RFile>,
    /// sub-directories placed inside env dirs (must be tolerated): (scope dir, name)
    subdirs: Vec<(u8, String)>,
    env0s: Vec<Vec<(u16, Vec<u8>)>>,
}

fn plain_name_strategy() -> impl Strategy<Value = Vec<u8>> {
    // names without dots: the on-disk name is then unambiguous for suffix-less files
    prop_oneof![
        3 => prop_oneof![Just(b"PATH".to_vec()), Just(b"A".to_vec()), Just(b"B_1".to_vec())],
        3 => proptest::collection::vec(prop_oneof![8 => Just(b'A'), 4 => Just(b'z'), 2 => Just(b' '), 2 => Just(0xffu8), 1 => Just(b'-')], 1..8),
    ]
}

fn rfile_strategy() -> impl Strategy<Value = RFile> {
    let suffix = prop_oneof![
        2 => Just(Suffix::None),
        6 => any::<u16>().prop_map(|b| Suffix::Known(BEHS[pick_idx(b, 5)])),
        3 => prop_oneof![Just(b"txt".to_vec()), Just(b"Append".to_vec()), Just(b"appendx".to_vec()), Just(vec![0xffu8]), Just(b"bak".to_vec()), Just(b"overrid".to_vec())].prop_map(Suffix::Unknown),
    ];
    (scope_strategy(), prop_oneof![3 => plain_name_strategy(), 1 => Just(b"A.B".to_vec())], suffix, value_strategy()).prop_map(|(scope, name, suffix, value)| RFile { scope, name, suffix, value })
}

fn read_case_strategy() -> impl Strategy<Value = ReadCase> {
    (proptest::collection::vec(rfile_strategy(), 0..10), proptest::collection::vec((0u8..2, "[a-z]{1,5}"), 0..2), proptest::collection::vec(env0_strategy(), 1..4)).prop_map(|(files, subdirs, env0s)| ReadCase { files, subdirs, env0s })
}

fn rfile_disk_name(f: &RFile) -> Vec<u8> {
    let mut n = f.name.clone();
    match &f.suffix {
        Suffix::None => {}
        Suffix::Known(b) => {
            n.push(b'.');
            n.extend_from_slice(b.suffix().as_bytes());
        }
        Suffix::Unknown(s) => {
            n.push(b'.');
            n.extend_from_slice(s);
        }
    }
    n
}

/// libcnb's documented file-name rule: the behaviour is what follows the LAST dot; a name without a dot (or whose only
/// dot is the leading one) has no suffix.
fn ref_split(disk_name: &[u8]) -> (Vec<u8>, Option<Vec<u8>>) {
    if disk_name == b".." {
        return (disk_name.to_vec(), None);
    }
    match disk_name.iter().rposition(|b| *b == b'.') {
        None | Some(0) => (disk_name.to_vec(), None),
        Some(i) => (disk_name[..i].to_vec(), Some(disk_name[i + 1..].to_vec())),
    }
}

fn read_case_json(c: &ReadCase) -> Value {
    json!({
        "files": c.files.iter().map(|f| json!({"scope": f.scope.to_json(), "name": crate::core::bytes_to_json(&f.name), "suffix": match &f.suffix { Suffix::None => json!(null), Suffix::Known(b) => json!({"known": b.suffix()}), Suffix::Unknown(s) => json!({"unknown": crate::core::bytes_to_json(s)}) }, "value": crate::core::bytes_to_json(&f.value)})).collect::<Vec<_>>(),
        "subdirs": c.subdirs,
        "env0s": c.env0s.iter().map(|e| e.iter().map(|(i, v)| json!([i, crate::core::bytes_to_json(v)])).collect::<Vec<_>>()).collect::<Vec<_>>(),
    })
}

fn read_case_from_json(v: &Value) -> ReadCase {
    ReadCase {
        files: v["files"].as_array().unwrap().iter().map(|f| RFile {
            scope: Sc::from_json(&f["scope"]),
            name: crate::core::json_to_bytes(&f["name"]),
            suffix: if f["suffix"].is_null() { Suffix::None } else if let Some(k) = f["suffix"].get("known") { Suffix::Known(Beh::from_suffix(k.as_str().unwrap().as_bytes()).unwrap()) } else { Suffix::Unknown(crate::core::json_to_bytes(&f["suffix"]["unknown"])) },
            value: crate::core::json_to_bytes(&f["value"]),
        }).collect(),
        subdirs: v["subdirs"].as_array().unwrap().iter().map(|s| (s[0].as_u64().unwrap() as u8, s[1].as_str().unwrap().to_string())).collect(),
        env0s: v["env0s"].as_array().unwrap().iter().map(|e| e.as_array().unwrap().iter().map(|p| (p[0].as_u64().unwrap() as u16, crate::core::json_to_bytes(&p[1]))).collect()).collect(),
    }
}

fn check_read(ctx: &Ctx, scratch: &Path, c: &ReadCase) -> Check {
    ctx.eval();
    let dir = scratch.join(format!("r-{:016x}", hash_of(&read_case_json(c).to_string())));
    let _ = fsutil::force_remove(&dir);
    std::fs::create_dir_all(&dir).unwrap();
    // lay out the files; later files with the same disk path overwrite earlier ones. A suffix-less NAME and
    // NAME.override in the same directory are ambiguous (directory order would decide): keep the first only.
    let mut placed: BTreeMap<(String, Vec<u8>), RFile> = BTreeMap::new();
    for f in &c.files {
        let disk = rfile_disk_name(f);
        if disk.len() > 200 || disk == b"." || disk == b".." {
            continue;
        }
        let (stem, ext) = ref_split(&disk);
        let beh = match &ext {
            None => Some(Beh::Override),
            Some(e) => Beh::from_suffix(e),
        };
        // ambiguity filter: same (dir, effective name, effective behaviour) via a different disk name
        let dup = placed.iter().any(|((d, other_disk), _)| {
            *d == f.scope.dir() && *other_disk != disk && {
                let (s2, e2) = ref_split(other_disk);
                let b2 = match &e2 { None => Some(Beh::Override), Some(e) => Beh::from_suffix(e) };
                s2 == stem && b2.is_some() && b2 == beh
            }
        });
        if dup {
            continue;
        }
        // a process directory name must not collide with a launch-scope file name
        placed.insert((f.scope.dir(), disk), f.clone());
    }
    let proc_dirs: std::collections::BTreeSet<String> = placed.keys().filter(|(d, _)| d.starts_with("env.launch/")).map(|(d, _)| d["env.launch/".len()..].to_string()).collect();
    let mut expected: Vec<EnvEntry> = vec![];
    for ((d, disk), f) in &placed {
        if d == "env.launch" && proc_dirs.iter().any(|p| p.as_bytes() == &disk[..]) {
            continue; // would collide with a process directory
        }
        let full = dir.join(d);
        std::fs::create_dir_all(&full).unwrap();
        std::fs::write(full.join(PathBuf::from(std::ffi::OsString::from_vec(disk.clone()))), &f.value).unwrap();
        let (stem, ext) = ref_split(disk);
        let beh = match &ext {
            None => Some(Beh::Override),
            Some(e) => Beh::from_suffix(e),
        };
        match beh {
            Some(b) => {
                ctx.class(if ext.is_none() { "read:suffix-less" } else { "read:known-suffix" });
                expected.push(EnvEntry { scope: f.scope.clone(), beh: b, name: stem, value: f.value.clone() });
            }
            None => ctx.class("read:unknown-suffix-ignored"),
        }
    }
    for (which, name) in &c.subdirs {
        let base = if *which == 0 { "env" } else { "env.build" };
        let p = dir.join(base).join(format!("subdir-{name}"));
        std::fs::create_dir_all(&p).unwrap();
        std::fs::write(p.join("INNER.override"), b"must not be read").unwrap();
        ctx.class("read:directory-inside-env-dir");
    }
    let has_proc = !proc_dirs.is_empty() || !c.subdirs.is_empty();
    let r = (|| -> Check {
        let read = match LayerEnv::read_from_layer_dir(&dir) {
            Ok(r) => r,
            // a directory placed inside env/ or env.build/ is not something the statement speaks about: refusing to
            // read such a layer is as good as skipping the directory — only reading its files as variables is wrong
            Err(_) if !c.subdirs.is_empty() => {
                ctx.class("read:directory-inside-env-dir-refused");
                return Ok(());
            }
            Err(e) => return Err(read_fail(&e, has_proc)),
        };
        let names: Vec<Vec<u8>> = expected.iter().map(|e| e.name.clone()).collect();
        let mut env0s: Vec<EnvMap> = c.env0s.iter().map(|e| env0_map(e, &names)).collect();
        env0s.push(EnvMap::new());
        compare_apply(&read, &expected, &[], &env0s)?;
        // INNER must never appear
        let e = from_env(&read.apply(Sc::Build.to_libcnb(), &to_env(&EnvMap::new())));
        ensure!(!e.contains_key(&b"INNER".to_vec()), "C03:file-in-subdirectory-read", "a file inside a sub-directory of an env dir was read as a variable");
        Ok(())
    })();
    let _ = fsutil::force_remove(&dir);
    r
}

pub fn run(ctx: &Ctx) {
    ctx.set_rule("write side: pairs (old, new) of layer environments (0..9 entries; scopes all/build/launch/process p; five behaviours; names = non-empty byte strings without '/' and NUL, weighted to dots, '.x', 'x.', 'A.append', '..', non-UTF-8, spaces, newline, up to 48 bytes; never '='; values = arbitrary bytes incl. empty, NUL, newlines, 200 bytes) (independent, or neighbours: one scope emptied / one process type dropped / one entry dropped / one value changed) written successively into one layer directory holding canary content (in 1 of 4 cases after an earlier write that fails part-way because a variable name is too long for a file name) (exec.d/p, data/, env.txt, envoy/, env.launchx, a symlink). Oracle: regular files under env, env.build, env.launch = exactly the spec rendering of `new`; canary snapshot identical; read-back applies like the written value: apply equals the reference for scopes all/build/launch/each process/unknown process x starting envs. read side: spec-shaped directories built by the harness (NAME, NAME.<known>, NAME.<unknown non-empty suffix>, directories inside env dirs — tolerated or refused, never read —, per-process directories; names starting or ending with a dot are not placed by hand: where such a name splits is not decided) read through read_from_layer_dir and compared with a reference reader (last-dot rule; suffix-less => override; unknown/non-UTF-8 suffix => ignored) + reference apply. Non-trivial (write): pair differs, old has a file new lacks, and new uses >=2 scopes or a dotted/non-UTF-8 name or a process scope; (read): case has an unknown-suffix or suffix-less file plus a per-process or nested directory; distinct = hash of the case.");
    ctx.assume("process names are valid ProcessType strings other than '.' and '..' whose last dot-suffix is not a behaviour word; a suffix-less NAME and NAME.override are never placed in the same directory");
    let scratch = Scratch::new("c03");
    for (_p, v) in ctx.regress_files() {
        replay(ctx, v["sub"].as_str().unwrap_or("write"), &v["case"]);
    }
    // half of the pairs are independent, the other half are NEIGHBOURS: `new` is `old` with one scope emptied, one
    // process type dropped, one entry dropped or one value changed — everything else stays byte-identical
    let wstrat = (entries_strategy(9), entries_strategy(9), proptest::collection::vec(env0_strategy(), 1..4), 0u8..8, any::<u16>()).prop_map(|(old, new, env0s, mode, idx)| {
        let new = match mode {
            4 if !old.is_empty() => {
                let victim = old[pick_idx(idx, old.len())].scope.clone();
                old.iter().filter(|e| e.scope != victim).cloned().collect()
            }
            5 => {
                let procs: Vec<Sc> = old.iter().filter(|e| matches!(e.scope, Sc::Process(_))).map(|e| e.scope.clone()).collect();
                if procs.is_empty() { new } else {
                    let victim = procs[pick_idx(idx, procs.len())].clone();
                    old.iter().filter(|e| e.scope != victim).cloned().collect()
                }
            }
            6 if !old.is_empty() => {
                let k = pick_idx(idx, old.len());
                old.iter().enumerate().filter(|(i, _)| *i != k).map(|(_, e)| e.clone()).collect()
            }
            7 if !old.is_empty() => {
                let k = pick_idx(idx, old.len());
                let mut n = old.clone();
                n[k].value.push(b'!');
                n
            }
            _ => new,
        };
        let poison = if mode == 3 || (idx % 7 == 0) { Some(((idx >> 3) as u8, (idx >> 5) as u8)) } else { None };
        WriteCase { poison, old, new, env0s }
    });
    ctx.run_prop("write", wstrat, ctx.tier.pick(8000, 50_000), write_case_json, |c| {
        if write_nontrivial(c) {
            ctx.class("write:nontrivial");
            ctx.nontrivial(hash_of(&write_case_json(c).to_string()));
            ctx.sample(3, || write_case_json(c));
        }
        if c.new.iter().any(|e| matches!(e.scope, Sc::Process(_))) {
            ctx.class("write:has-process-scope");
        }
        if c.new.iter().any(|e| std::str::from_utf8(&e.name).is_err()) {
            ctx.class("write:non-utf8-name");
        }
        check_write(ctx, &scratch.path, c)
    });
    ctx.run_prop("read", read_case_strategy(), ctx.tier.pick(5000, 20_000), read_case_json, |c| {
        let odd = c.files.iter().any(|f| !matches!(f.suffix, Suffix::Known(_)));
        let nested = c.files.iter().any(|f| matches!(f.scope, Sc::Process(_))) || !c.subdirs.is_empty();
        if odd && nested {
            ctx.class("read:nontrivial");
            ctx.nontrivial(hash_of(&read_case_json(c).to_string()));
            ctx.sample(6, || read_case_json(c));
        }
        check_read(ctx, &scratch.path, c)
    });
}

pub fn replay(ctx: &Ctx, sub: &str, case: &Value) {
    let scratch = Scratch::new("c03r");
    if sub == "read" {
        let c = read_case_from_json(case);
        ctx.check_case("read", check_read(ctx, &scratch.path, &c), || case.clone());
    } else {
        let c = write_case_from_json(case);
        ctx.check_case("write", check_write(ctx, &scratch.path, &c), || case.clone());
    }
}
