//! C11 — deleting or recreating a layer never touches anything outside that layer.
#![allow(deprecated)]

use crate::core::{Check, Ctx, Fail, Scratch, bin_dir, hash_of};
use crate::fsutil::{self, Kind, Snapshot};
use proptest::prelude::*;
use serde_json::{Value, json};
use std::os::unix::fs::PermissionsExt;
use std::path::{Path, PathBuf};

pub const LAYER: &str = "lay";

#[derive(Clone, Debug, PartialEq, Eq, Hash)]
pub enum LT {
    InsideFile,
    InsideDir,
    SiblingFile,
    SiblingDir,
    CanaryFileRel,
    CanaryFileAbs,
    CanaryDirRel,
    CanaryDirAbs,
    CanaryRoDir,
    Dangling,
    SelfLoop,
    LayersDir,
    Root,
}

#[derive(Clone, Debug, PartialEq, Eq, Hash)]
pub enum Node {
    Dir { name: String, mode: u32, children: Vec<Node> },
    File { name: String, mode: u32 },
    Link { name: String, target: LT },
    /// a 2-cycle of symlinks a -> b, b -> a
    Cycle { name: String },
    /// a HARD link to a file outside the layer (0 = read-only canary file, 1 = canary file 0640, 2 = sibling layer file 0444)
    HardLink { name: String, target: u8 },
}

#[derive(Clone, Debug, PartialEq, Eq, Hash)]
pub enum Top {
    RealDir,
    LinkCanaryDir,
    LinkSiblingDir,
    LinkOutsideEmptyDir,
    LinkCanaryFile,
    Dangling,
}

#[derive(Clone, Copy, Debug, PartialEq, Eq, Hash)]
pub enum Route {
    Uncached,
    CachedDelete,
    TraitRecreate,
}

#[derive(Clone, Debug, PartialEq, Eq, Hash)]
pub struct Case {
    top: Top,
    mode: u32,
    tree: Vec<Node>,
    route: Route,
    with_toml: bool,
    with_sbom: bool,
}

const DIR_MODES: [u32; 6] = [0o000, 0o111, 0o444, 0o555, 0o666, 0o755];
const FILE_MODES: [u32; 3] = [0o000, 0o444, 0o644];

fn name_strategy() -> impl Strategy<Value = String> {
    prop_oneof![Just("n0".to_string()), Just("n1".to_string()), Just("n2".to_string()), Just("bin".to_string()), Just("env".to_string()), Just("exec.d".to_string()), Just(".hidden".to_string()), Just("with space".to_string())]
}

fn lt_strategy() -> impl Strategy<Value = LT> {
    prop_oneof![
        Just(LT::InsideFile), Just(LT::InsideDir), Just(LT::SiblingFile), Just(LT::SiblingDir), Just(LT::CanaryFileRel), Just(LT::CanaryFileAbs),
        Just(LT::CanaryDirRel), Just(LT::CanaryDirAbs), Just(LT::CanaryRoDir), Just(LT::Dangling), Just(LT::SelfLoop), Just(LT::LayersDir), Just(LT::Root),
    ]
}

fn node_strategy(depth: u32) -> BoxedStrategy<Node> {
    let leaf = prop_oneof![
        4 => (name_strategy(), 0usize..3).prop_map(|(name, m)| Node::File { name, mode: FILE_MODES[m] }),
        4 => (name_strategy(), lt_strategy()).prop_map(|(name, target)| Node::Link { name, target }),
        1 => name_strategy().prop_map(|name| Node::Cycle { name }),
        2 => (name_strategy(), 0u8..3).prop_map(|(name, target)| Node::HardLink { name, target }),
    ];
    if depth == 0 {
        return leaf.boxed();
    }
    prop_oneof![
        5 => leaf,
        4 => (name_strategy(), 0usize..6, proptest::collection::vec(node_strategy(depth - 1), 0..4)).prop_map(|(name, m, children)| Node::Dir { name, mode: DIR_MODES[m], children }),
    ]
    .boxed()
}

fn case_strategy() -> impl Strategy<Value = Case> {
    (
        prop_oneof![8 => Just(Top::RealDir), 2 => Just(Top::LinkCanaryDir), 1 => Just(Top::LinkSiblingDir), 1 => Just(Top::LinkOutsideEmptyDir), 1 => Just(Top::LinkCanaryFile), 1 => Just(Top::Dangling)],
        0usize..6,
        proptest::collection::vec(node_strategy(3), 0..6),
        prop_oneof![Just(Route::Uncached), Just(Route::CachedDelete), Just(Route::TraitRecreate)],
        proptest::bool::weighted(0.8),
        any::<bool>(),
    )
        .prop_map(|(top, m, tree, route, with_toml, with_sbom)| Case { top, mode: DIR_MODES[m], tree, route, with_toml, with_sbom })
}

fn node_json(n: &Node) -> Value {
    match n {
        Node::Dir { name, mode, children } => json!({"dir": name, "mode": format!("{mode:o}"), "children": children.iter().map(node_json).collect::<Vec<_>>()}),
        Node::File { name, mode } => json!({"file": name, "mode": format!("{mode:o}")}),
        Node::Link { name, target } => json!({"link": name, "target": format!("{target:?}")}),
        Node::Cycle { name } => json!({"cycle": name}),
        Node::HardLink { name, target } => json!({"hardlink": name, "to": target}),
    }
}
fn node_from_json(v: &Value) -> Node {
    let mode = |v: &Value| u32::from_str_radix(v["mode"].as_str().unwrap(), 8).unwrap();
    if let Some(n) = v.get("dir") {
        Node::Dir { name: n.as_str().unwrap().into(), mode: mode(v), children: v["children"].as_array().unwrap().iter().map(node_from_json).collect() }
    } else if let Some(n) = v.get("file") {
        Node::File { name: n.as_str().unwrap().into(), mode: mode(v) }
    } else if let Some(n) = v.get("link") {
        let t = v["target"].as_str().unwrap();
        let all = [LT::InsideFile, LT::InsideDir, LT::SiblingFile, LT::SiblingDir, LT::CanaryFileRel, LT::CanaryFileAbs, LT::CanaryDirRel, LT::CanaryDirAbs, LT::CanaryRoDir, LT::Dangling, LT::SelfLoop, LT::LayersDir, LT::Root];
        Node::Link { name: n.as_str().unwrap().into(), target: all.into_iter().find(|x| format!("{x:?}") == t).unwrap() }
    } else if let Some(n) = v.get("hardlink") {
        Node::HardLink { name: n.as_str().unwrap().into(), target: v["to"].as_u64().unwrap() as u8 }
    } else {
        Node::Cycle { name: v["cycle"].as_str().unwrap().into() }
    }
}
fn case_json(c: &Case) -> Value {
    json!({"top": format!("{:?}", c.top), "mode": format!("{:o}", c.mode), "tree": c.tree.iter().map(node_json).collect::<Vec<_>>(), "route": format!("{:?}", c.route), "with_toml": c.with_toml, "with_sbom": c.with_sbom})
}
fn case_from_json(v: &Value) -> Case {
    let tops = [Top::RealDir, Top::LinkCanaryDir, Top::LinkSiblingDir, Top::LinkOutsideEmptyDir, Top::LinkCanaryFile, Top::Dangling];
    let routes = [Route::Uncached, Route::CachedDelete, Route::TraitRecreate];
    Case {
        top: tops.into_iter().find(|t| format!("{t:?}") == v["top"].as_str().unwrap()).unwrap(),
        mode: u32::from_str_radix(v["mode"].as_str().unwrap(), 8).unwrap(),
        tree: v["tree"].as_array().unwrap().iter().map(node_from_json).collect(),
        route: routes.into_iter().find(|t| format!("{t:?}") == v["route"].as_str().unwrap()).unwrap(),
        with_toml: v["with_toml"].as_bool().unwrap(),
        with_sbom: v["with_sbom"].as_bool().unwrap(),
    }
}

// ---------------- building the scenario on disk (as root) ----------------

fn build_nodes(dir: &Path, nodes: &[Node], root: &Path, depth: usize, chmods: &mut Vec<(PathBuf, u32)>) {
    let up = "../".repeat(depth + 2); // from inside the layer to <root>
    for n in nodes {
        match n {
            Node::File { name, mode } => {
                let p = dir.join(name);
                if std::fs::symlink_metadata(&p).is_ok() {
                    continue;
                }
                std::fs::write(&p, format!("file {name}")).unwrap();
                chmods.push((p, *mode));
            }
            Node::Dir { name, mode, children } => {
                let p = dir.join(name);
                if std::fs::symlink_metadata(&p).is_ok() {
                    continue;
                }
                std::fs::create_dir(&p).unwrap();
                build_nodes(&p, children, root, depth + 1, chmods);
                chmods.push((p, *mode));
            }
            Node::Link { name, target } => {
                let p = dir.join(name);
                if std::fs::symlink_metadata(&p).is_ok() {
                    continue;
                }
                let t: PathBuf = match target {
                    LT::InsideFile => PathBuf::from("../".repeat(depth)).join("inside-file"),
                    LT::InsideDir => PathBuf::from("../".repeat(depth)).join("inside-dir"),
                    LT::SiblingFile => PathBuf::from(format!("{}sib one/data.txt", "../".repeat(depth + 1))),
                    LT::SiblingDir => root.join("layers/sib one"),
                    LT::CanaryFileRel => PathBuf::from(format!("{up}canary/keep.txt")),
                    LT::CanaryFileAbs => root.join("canary/keep.txt"),
                    LT::CanaryDirRel => PathBuf::from(format!("{up}canary/sub")),
                    LT::CanaryDirAbs => root.join("canary/sub"),
                    LT::CanaryRoDir => root.join("canary/ro-dir"),
                    LT::Dangling => PathBuf::from("does/not/exist"),
                    LT::SelfLoop => PathBuf::from(name),
                    LT::LayersDir => root.join("layers"),
                    LT::Root => PathBuf::from("/"),
                };
                std::os::unix::fs::symlink(t, p).unwrap();
            }
            Node::HardLink { name, target } => {
                let p = dir.join(name);
                if std::fs::symlink_metadata(&p).is_ok() {
                    continue;
                }
                let t = match target {
                    0 => root.join("canary/readonly.txt"),
                    1 => root.join("canary/keep.txt"),
                    _ => root.join("layers/lay2/data.txt"),
                };
                let _ = std::fs::hard_link(t, p);
            }
            Node::Cycle { name } => {
                let a = dir.join(format!("{name}-a"));
                let b = dir.join(format!("{name}-b"));
                if std::fs::symlink_metadata(&a).is_ok() || std::fs::symlink_metadata(&b).is_ok() {
                    continue;
                }
                std::os::unix::fs::symlink(format!("{name}-b"), &a).unwrap();
                std::os::unix::fs::symlink(format!("{name}-a"), &b).unwrap();
            }
        }
    }
}

fn lchown_rec(p: &Path, uid: u32) {
    use std::os::unix::ffi::OsStrExt;
    let c = std::ffi::CString::new(p.as_os_str().as_bytes()).unwrap();
    unsafe {
        libc::lchown(c.as_ptr(), uid, uid);
    }
    if let Ok(md) = std::fs::symlink_metadata(p) {
        if md.file_type().is_dir() {
            if let Ok(rd) = std::fs::read_dir(p) {
                for e in rd.flatten() {
                    lchown_rec(&e.path(), uid);
                }
            }
        }
    }
}

pub fn build_scenario(root: &Path, c: &Case) {
    let layers = root.join("layers");
    std::fs::create_dir_all(&layers).unwrap();
    std::fs::create_dir_all(root.join("app")).unwrap();
    std::fs::create_dir_all(root.join("buildpack")).unwrap();
    let mut chmods: Vec<(PathBuf, u32)> = vec![];
    // canary tree beside the layers directory
    let canary = root.join("canary");
    std::fs::create_dir_all(canary.join("sub/deep")).unwrap();
    std::fs::create_dir_all(canary.join("ro-dir")).unwrap();
    std::fs::create_dir_all(canary.join("layer-like/nested")).unwrap();
    std::fs::write(canary.join("keep.txt"), b"keep me").unwrap();
    std::fs::write(canary.join("readonly.txt"), b"read-only file that may be hard-linked into the layer").unwrap();
    std::fs::write(canary.join("sub/deep/file"), b"deep").unwrap();
    std::fs::write(canary.join("sub/other"), b"other").unwrap();
    std::fs::write(canary.join("ro-dir/inner.txt"), b"inner").unwrap();
    std::fs::write(canary.join("secret"), b"secret").unwrap();
    std::fs::write(canary.join("layer-like/a"), b"a").unwrap();
    std::fs::write(canary.join("layer-like/nested/b"), b"b").unwrap();
    std::fs::create_dir_all(root.join("outside-empty")).unwrap();
    std::os::unix::fs::symlink("../layers/lay", canary.join("link-to-layer")).unwrap();
    chmods.push((canary.join("ro-dir"), 0o555));
    chmods.push((canary.join("secret"), 0o000));
    chmods.push((canary.join("layer-like"), 0o750));
    chmods.push((canary.join("keep.txt"), 0o640));
    chmods.push((canary.join("readonly.txt"), 0o444));
    // sibling layers, incl. names that share the target's prefix
    for sib in ["sib one", "lay2", "lay.extra"] {
        let d = layers.join(sib);
        std::fs::create_dir_all(d.join("env")).unwrap();
        std::fs::write(d.join("data.txt"), format!("data of {sib}")).unwrap();
        std::fs::write(d.join("env/VAR.override"), b"v").unwrap();
        std::fs::write(layers.join(format!("{sib}.toml")), "[types]\ncache = true\n\n[metadata]\nk = \"v\"\n").unwrap();
        std::fs::write(layers.join(format!("{sib}.sbom.cdx.json")), b"{}").unwrap();
    }
    std::fs::write(layers.join("lay.toml.bak"), b"backup").unwrap();
    std::fs::write(layers.join("store.toml"), b"[metadata]\n").unwrap();
    chmods.push((layers.join("lay2/data.txt"), 0o444));
    // the layer itself
    let lay = layers.join(LAYER);
    match c.top {
        Top::RealDir => {
            std::fs::create_dir(&lay).unwrap();
            std::fs::write(lay.join("inside-file"), b"in").unwrap();
            std::fs::create_dir(lay.join("inside-dir")).unwrap();
            std::fs::write(lay.join("inside-dir/x"), b"x").unwrap();
            build_nodes(&lay, &c.tree, root, 0, &mut chmods);
            chmods.push((lay.clone(), c.mode));
        }
        Top::LinkCanaryDir => std::os::unix::fs::symlink(canary.join("layer-like"), &lay).unwrap(),
        Top::LinkSiblingDir => std::os::unix::fs::symlink("sib one", &lay).unwrap(),
        Top::LinkOutsideEmptyDir => std::os::unix::fs::symlink("../outside-empty", &lay).unwrap(),
        Top::LinkCanaryFile => std::os::unix::fs::symlink(canary.join("keep.txt"), &lay).unwrap(),
        Top::Dangling => std::os::unix::fs::symlink("nowhere", &lay).unwrap(),
    }
    if c.with_toml {
        std::fs::write(layers.join("lay.toml"), "[types]\nlaunch = true\n\n[metadata]\nversion = \"1\"\n").unwrap();
    }
    if c.with_sbom {
        std::fs::write(layers.join("lay.sbom.syft.json"), b"{}").unwrap();
    }
    for (p, m) in chmods {
        std::fs::set_permissions(&p, std::fs::Permissions::from_mode(m)).unwrap();
    }
}

fn strip_own(mut s: Snapshot) -> Snapshot {
    let own = |p: &[u8]| {
        let s = String::from_utf8_lossy(p).to_string();
        s == "layers/lay" || s.starts_with("layers/lay/") || s == "layers/lay.toml" || s == "layers/lay.sbom.cdx.json" || s == "layers/lay.sbom.spdx.json" || s == "layers/lay.sbom.syft.json" || s == "layers" || s.is_empty()
    };
    s.retain(|p, _| !own(p));
    s
}

fn nontrivial(c: &Case) -> bool {
    fn walk(nodes: &[Node]) -> bool {
        nodes.iter().any(|n| match n {
            Node::Link { target, .. } => !matches!(target, LT::InsideFile | LT::InsideDir | LT::Dangling | LT::SelfLoop),
            Node::Dir { mode, children, .. } => (mode & 0o300) != 0o300 || walk(children),
            Node::HardLink { .. } => true,
            _ => false,
        })
    }
    c.top != Top::RealDir || walk(&c.tree)
}

fn run_case(ctx: &Ctx, scratch: &Path, c: &Case, drop_uid: bool) -> Check {
    ctx.eval();
    let (r, classes) = run_case_pure(scratch, c, drop_uid);
    for cl in classes {
        ctx.class(cl);
    }
    r
}

fn run_case_pure(scratch: &Path, c: &Case, drop_uid: bool) -> (Check, Vec<&'static str>) {
    let classes: std::cell::RefCell<Vec<&'static str>> = std::cell::RefCell::new(vec![]);
    let r = run_case_inner(scratch, c, drop_uid, &classes);
    (r, classes.into_inner())
}

fn run_case_inner(scratch: &Path, c: &Case, drop_uid: bool, classes: &std::cell::RefCell<Vec<&'static str>>) -> Check {
    let root = scratch.join(format!("s-{:016x}-{}-{}", hash_of(c), drop_uid, crate::core::uniq()));
    let _ = fsutil::force_remove(&root);
    std::fs::create_dir_all(&root).unwrap();
    build_scenario(&root, c);
    if drop_uid {
        lchown_rec(&root, 65534);
    }
    let before = strip_own(fsutil::snapshot(&root));
    let old_entries: Vec<Vec<u8>> = fsutil::snapshot(&root.join("layers/lay")).keys().filter(|k| !k.is_empty()).cloned().collect();
    let out = std::process::Command::new(bin_dir().join("vworker"))
        .arg("c11")
        .arg(&root)
        .arg(format!("{:?}", c.route))
        .arg(if drop_uid { "drop" } else { "keep" })
        .output()
        .map_err(|e| Fail::new("harness:spawn", e.to_string()))?;
    let stdout = String::from_utf8_lossy(&out.stdout).to_string();
    let res: Value = serde_json::from_str(stdout.lines().last().unwrap_or("")).unwrap_or(json!({"crashed": format!("status {:?} stderr {}", out.status, String::from_utf8_lossy(&out.stderr))}));
    let after = strip_own(fsutil::snapshot(&root));
    let r = (|| -> Check {
        if let Some(c) = res.get("crashed") {
            return Err(Fail::new("C11:worker-crashed", c.to_string()));
        }
        if res["dropped"] == false && drop_uid {
            return Err(Fail::new("harness:no-uid-drop", "setuid failed"));
        }
        // (a) always: everything outside the layer is exactly as before
        let d = fsutil::diff(&before, &after, 6);
        if !d.is_empty() {
            let sig = if c.top != Top::RealDir { "C11:toplevel-symlink-followed" } else { "C11:outside-content-touched" };
            return Err(Fail::new(sig, format!("route {:?} result {}: {d:?}", c.route, res)));
        }
        let ok = res["ok"] == true;
        if ok {
            classes.borrow_mut().push("outcome:ok");
            // (b) the layer is a real, empty directory and no old entry exists
            let lay = root.join("layers/lay");
            let md = std::fs::symlink_metadata(&lay).map_err(|e| Fail::new("C11:layer-missing-after-ok", e.to_string()))?;
            ensure!(md.file_type().is_dir(), "C11:layer-not-a-real-directory", "after Ok the layer path is {:?}", md.file_type());
            let now = fsutil::snapshot(&lay);
            // "all of the layer's own entries are gone": an OLD entry survives if a file or link still exists at its path
            // (directories alone do not count: a fresh layer may come with empty directories of its own, and a surviving
            // old directory that still holds anything old is reported through that content)
            let left: Vec<String> = now.iter().filter(|(k, e)| !k.is_empty() && old_entries.contains(k) && !matches!(e.kind, Kind::Dir)).map(|(k, _)| fsutil::show_path(k)).collect();
            ensure!(left.is_empty(), "C11:old-entries-survive", "after Ok the layer still contains {left:?} (had {} entries)", old_entries.len());
            if c.with_sbom && root.join("layers/lay.sbom.syft.json").exists() {
                return Err(Fail::new("C11:sbom-survives", "lay.sbom.syft.json survived the deletion"));
            }
        } else {
            classes.borrow_mut().push("outcome:error");
            // a real directory owned by the caller must be deletable whatever its modes: a failure OF THE DELETION
            // (not of reading the layer beforehand, which may legitimately fail on unreadable env directories)
            if c.top == Top::RealDir && res["err"].as_str().unwrap_or("").contains("DeleteLayerError") {
                return Err(Fail::new("C11:deletable-layer-not-deleted", format!("route {:?}: {}", c.route, res["err"])));
            }
        }
        Ok(())
    })();
    let _ = fsutil::force_remove(&root);
    r
}

pub fn run(ctx: &Ctx) {
    ctx.set_rule("generated layer trees (depth <= 4, modes dirs {000,111,444,555,666,755} files {000,444,644}; symlinks to files/dirs inside the layer, in a sibling layer, in a canary tree outside <layers> (relative and absolute, also to a read-only dir), to <layers> itself and to '/', dangling, self-loops, 2-cycles; HARD links to read-only files in the canary tree and in a sibling layer) with the layer path being a real directory or a symlink to a canary dir / sibling layer / empty outside dir / canary file / nowhere; around it a canary tree with odd modes, three sibling layers (two sharing the name prefix) with TOML, SBOM and env, lay.toml.bak, store.toml. Three deletion routes: uncached_layer, cached_layer + DeleteLayer, handle_layer + Recreate; each case in a fresh worker process, once after dropping to uid/gid 65534 (tree chowned to it, so permission bits bind) and once as root. Oracle: (a) always: lstat snapshot (content, mode, link target) of everything outside <layers>/lay, lay.toml, lay.sbom.* identical before/after; (b) on Ok: the layer path is a real directory in which no old entry exists any more (empty directories excepted), SBOM gone; a real-directory layer owned by the caller must be deleted successfully. Non-trivial: the layer path is a symlink, or the tree has a symlink whose target lies outside the layer, or a nested directory lacks w or x; distinct = hash of the case.");
    ctx.assume("a regular file at the layer path is not generated; unprivileged pass needs setuid(65534) to succeed");
    let scratch = Scratch::new("c11");
    for (_p, v) in ctx.regress_files() {
        replay(ctx, "", &v["case"]);
    }
    let cases = ctx.tier.pick(30_000, 300_000);
    ctx.run_prop_par(
        "trees",
        case_strategy(),
        cases,
        case_json,
        |c| {
            let (r, mut classes) = run_case_pure(&scratch.path, c, true);
            let mut evals = 1u64;
            if r.is_err() {
                return (r, (classes, evals));
            }
            if hash_of(c) % 3 == 0 {
                classes.push("also-as-root");
                let (r2, c2) = run_case_pure(&scratch.path, c, false);
                classes.extend(c2);
                evals += 1;
                return (r2, (classes, evals));
            }
            (r, (classes, evals))
        },
        |c, (classes, evals)| {
            ctx.eval_n(evals);
            for cl in classes {
                ctx.class(cl);
            }
            if nontrivial(c) {
                ctx.class("nontrivial");
                ctx.nontrivial(hash_of(c));
                if (ctx.samples_len() < 2 || hash_of(c) % 211 == 0) {
                    ctx.sample(6, || case_json(c));
                }
            }
            ctx.class(&format!("top:{:?}", c.top));
            ctx.class(&format!("route:{:?}", c.route));
        },
    );
}

pub fn replay(ctx: &Ctx, _sub: &str, case: &Value) {
    let scratch = Scratch::new("c11r");
    let c = case_from_json(case);
    let r = run_case(ctx, &scratch.path, &c, true).and_then(|_| run_case(ctx, &scratch.path, &c, false));
    ctx.check_case("replay", r, || case.clone());
}
