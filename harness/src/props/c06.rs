//! C06 — detect/build contexts faithfully reflect what the platform supplied.

use crate::bprun::{self, BpRun};
use crate::core::{Check, Ctx, Fail, Scratch, bytes_to_json, hash_of, json_to_bytes};
use crate::fsutil;
use crate::tv::{TV, emit_doc, meta_table, nasty_string};
use proptest::prelude::*;
use serde_json::{Value, json};
use std::ffi::OsString;
use std::os::unix::ffi::{OsStrExt, OsStringExt};
use std::path::Path;

#[derive(Clone, Debug, PartialEq)]
pub enum PEntry {
    File { name: Vec<u8>, content: String },
    /// content that is not UTF-8; via_link: 0 = a regular file, 1 = reached through a symlink, 2 = through a chain of two
    BadFile { name: Vec<u8>, via_link: u8 },
    Dir { name: Vec<u8> },
    LinkToFile { name: Vec<u8>, content: String, chain: bool },
    /// relative = the link text is relative to the env directory (the Kubernetes `..data -> ..<timestamp>` layout)
    LinkToDir { name: Vec<u8>, relative: bool },
    Dangling { name: Vec<u8> },
}

#[derive(Clone, Debug, PartialEq)]
pub enum TVal {
    Unset,
    Val(Vec<u8>),
}

#[derive(Clone, Debug, PartialEq)]
pub struct Case {
    /// 0 = none; 1 = store.toml holds non-UTF-8 bytes; 2 = store.toml is a directory; 3 = buildpack plan holds non-UTF-8 bytes
    bad_input: u8,
    build_phase: bool,
    platform: Option<Option<Vec<PEntry>>>, // None = platform dir missing, Some(None) = env dir missing
    plan: Vec<(String, Option<TV>)>,
    store: Option<TV>,
    descriptor: TV,
    target: [TVal; 5], // os, arch, variant, distro name, distro version
    bp_dir_spelling: u8,
}

fn fname() -> impl Strategy<Value = Vec<u8>> {
    prop_oneof![
        4 => "[A-Z][A-Z0-9_]{0,8}".prop_map(|s| s.into_bytes()),
        // names ending in the suffixes of the LAYER env format, which mean nothing in <platform>/env
        1 => prop_oneof![Just(b"JAVA_TOOL_OPTIONS.append".to_vec()), Just(b"spring.profiles.default".to_vec()), Just(b"X.override".to_vec()), Just(b"PATH.prepend".to_vec()), Just(b"PATH.delim".to_vec()), Just(b"PATH".to_vec())],
        3 => proptest::collection::vec(prop_oneof![6 => Just(b'a'), 2 => Just(b'.'), 2 => Just(b' '), 2 => Just(b'='), 2 => Just(0xffu8), 1 => Just(b'\n'), 1 => (1u8..=255).prop_filter("slash", |b| *b != b'/')], 1..10).prop_filter("dots", |n| n != b"." && n != b".."),
    ]
}

fn content() -> impl Strategy<Value = String> {
    prop_oneof![
        2 => Just(String::new()),
        2 => Just("value\n".to_string()),
        1 => Just("\n".to_string()),
        1 => Just("line1\nline2\n\n".to_string()),
        1 => Just("  padded \t".to_string()),
        4 => nasty_string(12),
    ]
}

fn pentry() -> impl Strategy<Value = PEntry> {
    prop_oneof![
        8 => (fname(), content()).prop_map(|(name, content)| PEntry::File { name, content }),
        2 => fname().prop_map(|name| PEntry::Dir { name }),
        3 => (fname(), content(), any::<bool>()).prop_map(|(name, content, chain)| PEntry::LinkToFile { name, content, chain }),
        2 => (fname(), any::<bool>()).prop_map(|(name, relative)| PEntry::LinkToDir { name, relative }),
        1 => fname().prop_map(|name| PEntry::Dangling { name }),
    ]
}

fn tval(mandatory: bool) -> BoxedStrategy<TVal> {
    if !mandatory {
        return prop_oneof![3 => Just(TVal::Unset), 5 => tval(true)].boxed();
    }
    // (no Unset alternative here: proptest would shrink towards it and turn every failure into "mandatory variable missing")
    prop_oneof![
        3 => Just(TVal::Val(b"linux".to_vec())),
        2 => Just(TVal::Val(b"v8".to_vec())),
        1 => Just(TVal::Val("ünï çødé 24.04".as_bytes().to_vec())),
        1 => Just(TVal::Val(b" spaced value ".to_vec())),
    ]
    .boxed()
}

fn descriptor_strategy() -> impl Strategy<Value = TV> {
    (proptest::option::of(nasty_string(8)), proptest::option::of(nasty_string(8)), any::<bool>(), proptest::collection::vec(nasty_string(5), 0..3), proptest::option::of(meta_table(3)), any::<bool>()).prop_map(|(name, homepage, clear_env, keywords, metadata, targets)| {
        let mut bp = vec![("id".to_string(), TV::s("verif/ctx")), ("version".to_string(), TV::s("4.5.6"))];
        if let Some(n) = name {
            bp.push(("name".into(), TV::Str(n)));
        }
        if let Some(h) = homepage {
            bp.push(("homepage".into(), TV::Str(h)));
        }
        if clear_env {
            bp.push(("clear-env".into(), TV::Bool(true)));
        }
        if !keywords.is_empty() {
            bp.push(("keywords".into(), TV::Array(keywords.into_iter().map(TV::Str).collect())));
        }
        let mut doc = vec![("api".to_string(), TV::s("0.10")), ("buildpack".to_string(), TV::Table(bp))];
        if targets {
            // declared targets, some of which coincide with the os/arch values the platform supplies in these cases — what
            // the descriptor declares must never leak into the context's target
            let mut ts = vec![TV::table(vec![("os", TV::s("linux")), ("arch", TV::s("arm64")), ("distros", TV::Array(vec![TV::table(vec![("name", TV::s("ubuntu")), ("version", TV::s("24.04"))])]))])];
            for (os, arch) in [("linux", "linux"), ("linux", "v8"), ("v8", "linux"), ("v8", "v8"), ("", "")] {
                ts.push(TV::table(vec![("os", TV::s(os)), ("arch", TV::s(arch)), ("variant", TV::s("declared-in-buildpack-toml")), ("distros", TV::Array(vec![]))]));
            }
            doc.push(("targets".into(), TV::Array(ts)));
        }
        if let Some(m) = metadata {
            doc.push(("metadata".into(), m));
        }
        TV::Table(doc)
    })
}

fn case_strategy() -> impl Strategy<Value = Case> {
    (
        any::<bool>(),
        prop_oneof![1 => Just(None), 1 => Just(Some(None)), 10 => proptest::collection::vec(pentry(), 0..9).prop_map(|v| Some(Some(v)))],
        proptest::collection::vec((nasty_string(8), proptest::option::of(meta_table(3))), 0..5),
        proptest::option::of(meta_table(3)),
        descriptor_strategy(),
        (tval(true), tval(true), tval(false), tval(true), tval(true)),
        0u8..3,
    )
        .prop_map(|(build_phase, platform, plan, store, descriptor, t, bp_dir_spelling)| Case { bad_input: 0, build_phase, platform, plan, store, descriptor, target: [t.0, t.1, t.2, t.3, t.4], bp_dir_spelling })
}

fn pentry_json(e: &PEntry) -> Value {
    match e {
        PEntry::File { name, content } => json!({"file": bytes_to_json(name), "content": content}),
        PEntry::BadFile { name, via_link } => json!({"bad_file": bytes_to_json(name), "via_link": via_link}),
        PEntry::Dir { name } => json!({"dir": bytes_to_json(name)}),
        PEntry::LinkToFile { name, content, chain } => json!({"link_to_file": bytes_to_json(name), "content": content, "chain": chain}),
        PEntry::LinkToDir { name, relative } => json!({"link_to_dir": bytes_to_json(name), "relative": relative}),
        PEntry::Dangling { name } => json!({"dangling": bytes_to_json(name)}),
    }
}
fn pentry_from_json(v: &Value) -> PEntry {
    let (k, x) = v.as_object().unwrap().iter().find(|(k, _)| k.as_str() != "content" && k.as_str() != "chain" && k.as_str() != "via_link" && k.as_str() != "relative").unwrap();
    let name = json_to_bytes(x);
    match k.as_str() {
        "file" => PEntry::File { name, content: v["content"].as_str().unwrap().into() },
        "bad_file" => PEntry::BadFile { name, via_link: v["via_link"].as_u64().unwrap_or(0) as u8 },
        "dir" => PEntry::Dir { name },
        "link_to_file" => PEntry::LinkToFile { name, content: v["content"].as_str().unwrap().into(), chain: v["chain"].as_bool().unwrap() },
        "link_to_dir" => PEntry::LinkToDir { name, relative: v["relative"].as_bool().unwrap_or(false) },
        _ => PEntry::Dangling { name },
    }
}
fn tval_json(t: &TVal) -> Value {
    match t {
        TVal::Unset => json!(null),
        TVal::Val(v) => bytes_to_json(v),
    }
}
fn case_json(c: &Case) -> Value {
    json!({
        "build_phase": c.build_phase,
        "platform": match &c.platform { None => json!("missing"), Some(None) => json!("env-missing"), Some(Some(v)) => json!(v.iter().map(pentry_json).collect::<Vec<_>>()) },
        "plan": c.plan.iter().map(|(n, m)| json!({"name": n, "metadata": m.as_ref().map(TV::to_json)})).collect::<Vec<_>>(),
        "store": c.store.as_ref().map(TV::to_json),
        "descriptor": c.descriptor.to_json(),
        "target": c.target.iter().map(tval_json).collect::<Vec<_>>(),
        "bp_dir_spelling": c.bp_dir_spelling,
        "bad_input": c.bad_input,
    })
}
fn case_from_json(v: &Value) -> Case {
    let t: Vec<TVal> = v["target"].as_array().unwrap().iter().map(|x| if x.is_null() { TVal::Unset } else { TVal::Val(json_to_bytes(x)) }).collect();
    Case {
        bad_input: v["bad_input"].as_u64().unwrap_or(0) as u8,
        build_phase: v["build_phase"].as_bool().unwrap(),
        platform: if v["platform"] == "missing" { None } else if v["platform"] == "env-missing" { Some(None) } else { Some(Some(v["platform"].as_array().unwrap().iter().map(pentry_from_json).collect())) },
        plan: v["plan"].as_array().unwrap().iter().map(|e| (e["name"].as_str().unwrap().to_string(), if e["metadata"].is_null() { None } else { Some(TV::from_json(&e["metadata"])) })).collect(),
        store: if v["store"].is_null() { None } else { Some(TV::from_json(&v["store"])) },
        descriptor: TV::from_json(&v["descriptor"]),
        target: [t[0].clone(), t[1].clone(), t[2].clone(), t[3].clone(), t[4].clone()],
        bp_dir_spelling: v["bp_dir_spelling"].as_u64().unwrap() as u8,
    }
}

fn osname(b: &[u8]) -> OsString {
    OsString::from_vec(b.to_vec())
}

const TARGET_VARS: [&str; 5] = ["CNB_TARGET_OS", "CNB_TARGET_ARCH", "CNB_TARGET_ARCH_VARIANT", "CNB_TARGET_DISTRO_NAME", "CNB_TARGET_DISTRO_VERSION"];

fn check(ctx: &Ctx, scratch: &Path, c: &Case) -> Check {
    ctx.eval();
    let (r, classes) = check_pure(scratch, c);
    for cl in classes {
        ctx.class(cl);
    }
    r
}

/// `/a//b/./c/../d/` -> `/a/b/d` (no file-system access)
fn lex_norm(p: &[u8]) -> Vec<u8> {
    let mut stack: Vec<&[u8]> = vec![];
    for seg in p.split(|b| *b == b'/') {
        match seg {
            b"" | b"." => {}
            b".." => {
                stack.pop();
            }
            s => stack.push(s),
        }
    }
    let mut out = vec![];
    for s in stack {
        out.push(b'/');
        out.extend_from_slice(s);
    }
    if out.is_empty() {
        out.push(b'/');
    }
    out
}

fn check_pure(scratch: &Path, c: &Case) -> (Check, Vec<&'static str>) {
    let classes: std::cell::RefCell<Vec<&'static str>> = std::cell::RefCell::new(vec![]);
    let r = check_inner(scratch, c, &classes);
    (r, classes.into_inner())
}

fn check_inner(scratch: &Path, c: &Case, classes: &std::cell::RefCell<Vec<&'static str>>) -> Check {
    let root = scratch.join(format!("c-{:016x}-{}", hash_of(&case_json(c).to_string()), crate::core::uniq()));
    let _ = fsutil::force_remove(&root);
    let d = bprun::setup_dirs(&root);
    std::fs::write(d.buildpack.join("buildpack.toml"), emit_doc(&c.descriptor)).unwrap();
    // platform directory
    let mut expected_env: std::collections::BTreeMap<Vec<u8>, Vec<u8>> = Default::default();
    let mut bad_content = false;
    // (name, bytes) of env files whose content is not UTF-8, and whether a dangling link sits in the env directory
    let mut bad_entries: Vec<(Vec<u8>, Vec<u8>)> = vec![];
    let mut has_dangling = false;
    match &c.platform {
        None => {
            let _ = std::fs::remove_dir_all(&d.platform);
        }
        Some(None) => {}
        Some(Some(entries)) => {
            let env = d.platform.join("env");
            std::fs::create_dir_all(&env).unwrap();
            let targets = d.platform.join("targets");
            std::fs::create_dir_all(&targets).unwrap();
            let mut used: std::collections::BTreeSet<Vec<u8>> = Default::default();
            for (i, e) in entries.iter().enumerate() {
                let name = match e {
                    PEntry::File { name, .. } | PEntry::BadFile { name, .. } | PEntry::Dir { name } | PEntry::LinkToFile { name, .. } | PEntry::LinkToDir { name, .. } | PEntry::Dangling { name } => name.clone(),
                };
                if !used.insert(name.clone()) {
                    continue;
                }
                let p = env.join(osname(&name));
                match e {
                    PEntry::File { content, .. } => {
                        std::fs::write(&p, content).unwrap();
                        expected_env.insert(name, content.clone().into_bytes());
                    }
                    PEntry::BadFile { via_link, .. } => {
                        let bytes = [b'o', b'k', 0xff, 0xfe];
                        match via_link {
                            0 => std::fs::write(&p, bytes).unwrap(),
                            n => {
                                let t = targets.join(format!("bad{i}"));
                                std::fs::write(&t, bytes).unwrap();
                                if *n == 1 {
                                    std::os::unix::fs::symlink(format!("../targets/bad{i}"), &p).unwrap();
                                } else {
                                    let mid = targets.join(format!("badmid{i}"));
                                    std::os::unix::fs::symlink(format!("bad{i}"), &mid).unwrap();
                                    std::os::unix::fs::symlink(&mid, &p).unwrap();
                                }
                            }
                        }
                        bad_content = true;
                        bad_entries.push((name, bytes.to_vec()));
                    }
                    PEntry::Dir { .. } => {
                        std::fs::create_dir(&p).unwrap();
                        std::fs::write(p.join("INNER"), b"must not become a variable").unwrap();
                    }
                    PEntry::LinkToFile { content, chain, .. } => {
                        let t = targets.join(format!("t{i}"));
                        std::fs::write(&t, content).unwrap();
                        if *chain {
                            let mid = targets.join(format!("mid{i}"));
                            std::os::unix::fs::symlink(format!("t{i}"), &mid).unwrap();
                            std::os::unix::fs::symlink(&mid, &p).unwrap();
                        } else {
                            std::os::unix::fs::symlink(format!("../targets/t{i}"), &p).unwrap();
                        }
                        expected_env.insert(name, content.clone().into_bytes());
                    }
                    PEntry::LinkToDir { relative, .. } => {
                        if *relative {
                            // `..data -> ..2026_01_01` next to it, inside the env directory
                            let t = env.join(format!("..ts-{i}"));
                            std::fs::create_dir(&t).unwrap();
                            std::fs::write(t.join("X"), b"x").unwrap();
                            std::os::unix::fs::symlink(format!("..ts-{i}"), &p).unwrap();
                        } else {
                            let t = targets.join(format!("d{i}"));
                            std::fs::create_dir(&t).unwrap();
                            std::fs::write(t.join("X"), b"x").unwrap();
                            std::os::unix::fs::symlink(&t, &p).unwrap();
                        }
                    }
                    PEntry::Dangling { .. } => {
                        has_dangling = true;
                        std::os::unix::fs::symlink("../targets/nope", &p).unwrap()
                    }
                }
            }
        }
    }
    // buildpack plan / store
    let plan_doc = TV::Table(if c.plan.is_empty() {
        vec![]
    } else {
        vec![(
            "entries".to_string(),
            TV::Array(
                c.plan
                    .iter()
                    .map(|(n, m)| {
                        let mut t = vec![("name".to_string(), TV::Str(n.clone()))];
                        if let Some(m) = m {
                            t.push(("metadata".into(), m.clone()));
                        }
                        TV::Table(t)
                    })
                    .collect(),
            ),
        )]
    });
    if c.build_phase {
        std::fs::write(&d.plan, emit_doc(&plan_doc)).unwrap();
        if let Some(s) = &c.store {
            std::fs::write(d.layers.join("store.toml"), emit_doc(&TV::Table(vec![("metadata".into(), s.clone())]))).unwrap();
        }
        match c.bad_input {
            1 => std::fs::write(d.layers.join("store.toml"), b"[metadata]\nk = \"\xff\xfe\"\n").unwrap(),
            2 => {
                let _ = std::fs::remove_file(d.layers.join("store.toml"));
                std::fs::create_dir_all(d.layers.join("store.toml")).unwrap();
            }
            3 => std::fs::write(&d.plan, b"[[entries]]\nname = \"\xff\"\n").unwrap(),
            _ => {}
        }
    }
    // environment
    let bp_dir_str: OsString = match c.bp_dir_spelling {
        0 => d.buildpack.clone().into_os_string(),
        1 => {
            let mut s = d.buildpack.clone().into_os_string();
            s.push("/");
            s
        }
        _ => {
            let mut s = root.join("ctl/../buildpack/.").into_os_string();
            s.push("");
            s
        }
    };
    let mut env: Vec<(OsString, OsString)> = vec![("CNB_BUILDPACK_DIR".into(), bp_dir_str.clone())];
    let mut bad_mandatory = false;
    let mut bad_variant = false;
    for (i, t) in c.target.iter().enumerate() {
        if let TVal::Val(v) = t {
            env.push((TARGET_VARS[i].into(), osname(v)));
            if std::str::from_utf8(v).is_err() {
                if i == 2 { bad_variant = true } else { bad_mandatory = true }
            }
        }
    }
    let layers_arg: OsString = {
        let mut s = d.layers.clone().into_os_string();
        if c.bp_dir_spelling == 1 {
            s.push("/");
        }
        s
    };
    let args: Vec<OsString> = if c.build_phase { vec![layers_arg.clone(), d.platform.clone().into(), d.plan.clone().into()] } else { vec![d.platform.clone().into(), d.plan.clone().into()] };
    let script = json!({"dump": true, "detect": "pass", "build": {"kind": "ok"}});
    // every third case: the same process has just run a complete detect/build of another buildpack (libcnb_runtime_detect /
    // _build are public for programmatic use) — nothing of that may show in this context
    let mut extra_env: Vec<(OsString, OsString)> = vec![];
    if hash_of(&case_json(c).to_string()) % 3 == 0 {
        classes.borrow_mut().push("second-invocation-in-one-process");
        extra_env.push(("VBP_WARMUP_ROOT".into(), bprun::prepare_warmup(&root).into_os_string()));
    }
    let out = bprun::run(&BpRun { root: &root, exe_name: if c.build_phase { "build" } else { "detect" }, args, env, script: &script, extra_env });
    let what = format!("exit {:?}, markers {:?}, stderr {:?}", out.code, out.markers, out.stderr.chars().take(300).collect::<String>());
    let r = (|| -> Check {
        let bad_file_input = c.build_phase && c.bad_input != 0;
        let mut expected_env = expected_env.clone();
        let reported = out.code != Some(0) && out.dump.is_none() && out.count("on_error") == 1;
        // Env holds OsStrings: a non-UTF-8 file content handed on byte for byte is "represented", not dropped or altered
        let passed_on = bad_content && !bad_mandatory && !bad_variant && !bad_file_input && out.code == Some(0) && out.dump.is_some();
        if passed_on {
            classes.borrow_mut().push("non-utf8-content-passed-on");
            for (n, b) in &bad_entries {
                expected_env.insert(n.clone(), b.clone());
            }
        }
        // a directory where store.toml would be: "no store" is as good as an error (the statement tolerates a missing store)
        if c.build_phase && c.bad_input == 2 && !bad_content && !bad_mandatory && !bad_variant && out.code == Some(0) {
            if let Some(dump) = &out.dump {
                ensure!(dump["store"].is_null(), "C06:store-invented", "{:?}", dump["store"]);
                return Ok(());
            }
        }
        let expect_error = (bad_content && !passed_on) || bad_mandatory || bad_variant || bad_file_input;
        if !expect_error && reported && (has_dangling || c.platform.is_none()) {
            // a dangling link in <platform>/env, or no platform directory at all, is neither a regular file nor one of the
            // tolerated cases: refusing it with a reported error is as good as ignoring it
            classes.borrow_mut().push("dangling-link-or-missing-platform-dir-refused");
            return Ok(());
        }
        if expect_error {
            classes.borrow_mut().push("expects-reported-error");
            if out.code == Some(0) || out.dump.is_some() {
                let sig = if bad_file_input && !bad_content && !bad_mandatory && !bad_variant {
                    if c.bad_input == 3 { "C06:unreadable-buildpack-plan-not-reported" } else { "C06:unreadable-store-treated-as-absent" }
                } else if bad_variant && !bad_content && !bad_mandatory { "C06:arch-variant-not-unicode-dropped" } else if bad_content { "C06:unrepresentable-file-content-not-reported" } else { "C06:unrepresentable-target-value-not-reported" };
                return Err(Fail::new(sig, format!("a value that cannot be represented was not reported as an error: {what}; dump target {:?}", out.dump.as_ref().map(|d| d["target"].clone()))));
            }
            ensure!(out.count("on_error") == 1, "C06:error-not-reported-through-handler", "{what}");
            return Ok(());
        }
        ensure!(out.code == Some(0), "C06:valid-inputs-rejected", "{what}");
        let dump = out.dump.as_ref().ok_or_else(|| Fail::new("C06:no-context", what.clone()))?;
        // the directories, not their spelling: both sides are compared after lexical normalisation
        ensure!(lex_norm(&json_to_bytes(&dump["app_dir"])) == lex_norm(d.app.as_os_str().as_bytes()), "C06:app-dir", "{:?} vs {:?}", dump["app_dir"], d.app);
        ensure!(lex_norm(&json_to_bytes(&dump["buildpack_dir"])) == lex_norm(bp_dir_str.as_bytes()), "C06:buildpack-dir", "{:?} vs {:?}", dump["buildpack_dir"], bp_dir_str);
        if c.build_phase {
            ensure!(lex_norm(&json_to_bytes(&dump["layers_dir"])) == lex_norm(layers_arg.as_bytes()), "C06:layers-dir", "{:?} vs {:?}", dump["layers_dir"], layers_arg);
        }
        // target
        let t = &dump["target"];
        let keys = ["os", "arch", "arch_variant", "distro_name", "distro_version"];
        for (i, k) in keys.iter().enumerate() {
            let want = match &c.target[i] {
                TVal::Unset => Value::Null,
                TVal::Val(v) => Value::String(String::from_utf8(v.clone()).unwrap()),
            };
            ensure!(t[*k] == want, format!("C06:target-{k}"), "context says {:?}, platform supplied {:?}", t[*k], want);
        }
        // platform env
        let got_env: std::collections::BTreeMap<Vec<u8>, Vec<u8>> = dump["platform_env"].as_array().unwrap().iter().map(|kv| (json_to_bytes(&kv[0]), json_to_bytes(&kv[1]))).collect();
        if got_env != expected_env {
            let missing: Vec<String> = expected_env.keys().filter(|k| !got_env.contains_key(*k)).map(|k| fsutil::show_path(k)).collect();
            let extra: Vec<String> = got_env.keys().filter(|k| !expected_env.contains_key(*k)).map(|k| fsutil::show_path(k)).collect();
            let changed: Vec<String> = expected_env.iter().filter(|(k, v)| got_env.get(*k).map(|g| g != *v).unwrap_or(false)).map(|(k, v)| format!("{}: {:?} vs {:?}", fsutil::show_path(k), String::from_utf8_lossy(&got_env[k]), String::from_utf8_lossy(v))).collect();
            let sig = if !missing.is_empty() { "C06:platform-env-variable-missing" } else if !extra.is_empty() { "C06:platform-env-extra-variable" } else { "C06:platform-env-value-altered" };
            return Err(Fail::new(sig, format!("missing {missing:?} extra {extra:?} changed {changed:?}")));
        }
        // descriptor (defaults filled in as the spec says)
        let got_desc = TV::from_json(&dump["descriptor"]);
        let mut want_desc = c.descriptor.clone();
        if let TV::Table(top) = &mut want_desc {
            for (k, v) in top.iter_mut() {
                if k == "api" {
                    *v = TV::s("0.10");
                }
                if k == "buildpack" {
                    if let TV::Table(bp) = v {
                        for (key, def) in [("clear-env", TV::Bool(false)), ("keywords", TV::Array(vec![])), ("licenses", TV::Array(vec![])), ("sbom-formats", TV::Array(vec![]))] {
                            if !bp.iter().any(|(k, _)| k == key) {
                                bp.push((key.to_string(), def));
                            }
                        }
                    }
                }
            }
            if !top.iter().any(|(k, _)| k == "stacks") {
                top.push(("stacks".into(), TV::Array(vec![])));
            }
            if !top.iter().any(|(k, _)| k == "targets") {
                top.push(("targets".into(), TV::Array(vec![])));
            }
        }
        ensure!(got_desc.sem_eq(&want_desc), "C06:descriptor-differs", "context {got_desc:?}\nfile    {want_desc:?}");
        if c.build_phase {
            let got_plan: Vec<(String, TV)> = dump["plan"].as_array().unwrap().iter().map(|e| (e["name"].as_str().unwrap().to_string(), TV::from_json(&e["metadata"]))).collect();
            ensure!(got_plan.len() == c.plan.len(), "C06:plan-entry-count", "{} vs {}", got_plan.len(), c.plan.len());
            for ((gn, gm), (wn, wm)) in got_plan.iter().zip(&c.plan) {
                let wm = wm.clone().unwrap_or(TV::Table(vec![]));
                ensure!(gn == wn && gm.sem_eq(&wm), "C06:plan-entry-differs", "context ({gn:?}, {gm:?}) vs supplied ({wn:?}, {wm:?})");
            }
            match (&c.store, dump["store"].is_null()) {
                (None, true) => {}
                (Some(s), false) => {
                    let g = TV::from_json(&dump["store"]);
                    ensure!(g.sem_eq(s), "C06:store-differs", "context {g:?} vs supplied {s:?}");
                }
                (None, false) => return Err(Fail::new("C06:store-invented", format!("{:?}", dump["store"]))),
                (Some(_), true) => return Err(Fail::new("C06:store-dropped", "store.toml present but context has no store")),
            }
        }
        Ok(())
    })();
    let _ = fsutil::force_remove(&root);
    r
}

fn nontrivial(c: &Case) -> bool {
    let p = match &c.platform {
        Some(Some(v)) => {
            let files = v.iter().filter(|e| matches!(e, PEntry::File { .. })).count();
            let odd = v.iter().filter(|e| !matches!(e, PEntry::File { .. })).count();
            files >= 1 && odd >= 1
        }
        _ => false,
    };
    let deep = c.plan.iter().any(|(_, m)| m.as_ref().map(|m| m.depth() >= 2).unwrap_or(false)) || c.store.as_ref().map(|s| s.depth() >= 2).unwrap_or(false) || c.descriptor.get("metadata").map(|m| m.depth() >= 2).unwrap_or(false);
    p || deep
}

pub fn run(ctx: &Ctx) {
    ctx.set_rule("contexts of real detect/build executions of a scripted buildpack that dumps its context: platform directories (0..8 entries: files with byte-string names incl. dots, spaces, '=', newline, non-UTF-8, names ending in .append/.default/.override/.prepend/.delim and UTF-8 contents incl. empty/trailing newlines/multi-line/padded; sub-directories; symlinks to files (direct and chained), to directories (absolute, and relative to the env directory like Kubernetes' ..data), dangling; env dir missing; platform dir missing), buildpack plans (0..4 entries with nested metadata of every TOML kind), store tables or no store.toml, descriptors with optional fields/targets/nested metadata, CNB_TARGET_* values from {unset (optional only), '', linux, v8, unicode, padded}, three spellings of CNB_BUILDPACK_DIR and the layers argument; separately generated classes with one unrepresentable value (non-UTF-8 file content in a regular file or behind one or two symlinks, non-UTF-8 value of a mandatory target variable, non-UTF-8 CNB_TARGET_ARCH_VARIANT, store.toml with non-UTF-8 bytes, store.toml being a directory, buildpack plan with non-UTF-8 bytes). Every third case runs as the SECOND detect/build in its process, after a complete run of another buildpack with other inputs. Inputs are emitted by the harness's own TOML emitter. Oracle: field-by-field equality of the dump with the generated inputs (directories after lexical normalisation); unrepresentable value => reported error (non-zero exit, error handler once, no context) — non-UTF-8 file content handed on byte for byte is accepted too, as are a reported error for a dangling link or a missing platform directory and 'no store' for a directory at store.toml. Non-trivial: platform env has >= 1 file plus >= 1 symlink/directory, or plan/store/descriptor metadata nested >= 2; distinct = hash of the case.");
    ctx.assume("paths and argv are UTF-8");
    let scratch = Scratch::new("c06");
    for (_p, v) in ctx.regress_files() {
        replay(ctx, "", &v["case"]);
    }
    ctx.run_prop_par(
        "contexts",
        case_strategy(),
        ctx.tier.pick(12_000, 120_000),
        case_json,
        |c| check_pure(&scratch.path, c),
        |c, classes| {
            ctx.eval();
            for cl in classes {
                ctx.class(cl);
            }
            if nontrivial(c) {
                ctx.class("nontrivial");
                ctx.nontrivial(hash_of(&case_json(c).to_string()));
                if (ctx.samples_len() < 2 || hash_of(&case_json(c).to_string()) % 173 == 0) {
                    ctx.sample(4, || case_json(c));
                }
            }
            ctx.class(if c.build_phase { "phase:build" } else { "phase:detect" });
        },
    );
    // one unrepresentable value per case
    let bad = (case_strategy(), 0u8..6, 0usize..4).prop_map(|(mut c, which, idx)| {
        match which {
            3 | 4 | 5 => {
                c.build_phase = true;
                c.bad_input = which - 2;
            }
            0 => {
                let e = PEntry::BadFile { name: b"BAD_CONTENT".to_vec(), via_link: (idx % 3) as u8 };
                match &mut c.platform {
                    Some(Some(v)) => v.insert(0, e),
                    p => *p = Some(Some(vec![e])),
                }
            }
            1 => {
                let i = [0, 1, 3, 4][idx];
                c.target[i] = TVal::Val(vec![b'x', 0xff, 0xfe]);
            }
            _ => c.target[2] = TVal::Val(vec![b'v', 0xff]),
        }
        c
    });
    ctx.run_prop_par(
        "unrepresentable",
        bad,
        ctx.tier.pick(3000, 20_000),
        case_json,
        |c| check_pure(&scratch.path, c),
        |c, classes| {
            ctx.eval();
            for cl in classes {
                ctx.class(cl);
            }
            ctx.class("class:one-unrepresentable-value");
            ctx.nontrivial(hash_of(&case_json(c).to_string()));
        },
    );
}

pub fn replay(ctx: &Ctx, _sub: &str, case: &Value) {
    let scratch = Scratch::new("c06r");
    let c = case_from_json(case);
    ctx.check_case("replay", check(ctx, &scratch.path, &c), || case.clone());
}
