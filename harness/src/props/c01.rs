//! C01 — cached/uncached layer requests obey the layer state machine over build histories.

use crate::core::{Check, Ctx, Fail, Scratch, Tier, bytes_to_json, hash_of, json_to_bytes, ncpu, par_map, pick_idx};
use crate::envmodel::{EnvEntry, EnvMap, Sc, entries_from_json, entries_to_json, envmap_to_json, from_env, ref_apply, to_env, to_layer_env};
use crate::fsutil;
use crate::layermodel::*;
use crate::tv::TV;
use libcnb::build::BuildContext;
use libcnb::data::layer::LayerName;
use libcnb::generic::GenericMetadata;
use libcnb::layer::{CachedLayerDefinition, EmptyLayerCause, IntoAction, InvalidMetadataAction, LayerRef, LayerState, RestoredLayerAction, UncachedLayerDefinition};
use libcnb::sbom::Sbom;
use proptest::prelude::*;
use serde::de::DeserializeOwned;
use serde::{Deserialize, Serialize};
use serde_json::{Value, json};
use std::cell::RefCell;
use std::collections::BTreeMap;
use std::path::{Path, PathBuf};

/// the first three names (quick tier) are prefix-related on purpose: "alpha" is a prefix of "alpha2" and of the dotted
/// "alpha.v2 layer" (whose files are alpha.v2 layer.toml / alpha.v2 layer.sbom.*), so that sloppy name matching shows
pub const NAMES: [&str; 5] = ["alpha", "alpha2", "alpha.v2 layer", "β-layer", "x"];

// ---------------- metadata types ----------------

#[derive(Serialize, Deserialize, Clone, Debug, PartialEq)]
pub struct V1 {
    version: String,
}
#[derive(Serialize, Deserialize, Clone, Debug, PartialEq)]
pub struct V2 {
    version: String,
    rev: i64,
}

/// a metadata type all of whose fields are optional: it serialises to an EMPTY `[metadata]` table when nothing is set and
/// reads back from one — but not from a file without a `[metadata]` table
#[derive(Serialize, Deserialize, Clone, Debug, PartialEq)]
pub struct Opt {
    #[serde(default, skip_serializing_if = "Option::is_none")]
    note: Option<String>,
}

#[derive(Clone, Copy, Debug, PartialEq, Eq, Hash)]
pub enum MType {
    Generic,
    V1,
    V2,
    Opt,
}

#[derive(Clone, Debug, PartialEq)]
pub enum MetaVal {
    Generic(TV),
    V1(String),
    V2(String, i64),
    Opt(Option<String>),
    /// a value TOML cannot represent (an integer above i64::MAX): writing it must fail and leave the layer as it was
    Unser,
}

impl MetaVal {
    pub fn tv(&self) -> TV {
        match self {
            MetaVal::Generic(t) => t.clone(),
            MetaVal::V1(v) => TV::Table(vec![("version".into(), TV::Str(v.clone()))]),
            MetaVal::V2(v, r) => TV::Table(vec![("version".into(), TV::Str(v.clone())), ("rev".into(), TV::Int(*r))]),
            MetaVal::Opt(None) => TV::Table(vec![]),
            MetaVal::Opt(Some(n)) => TV::Table(vec![("note".into(), TV::Str(n.clone()))]),
            MetaVal::Unser => TV::Table(vec![("stub".into(), TV::Bool(true))]),
        }
    }
    pub fn to_json(&self) -> Value {
        match self {
            MetaVal::Generic(t) => json!({"generic": t.to_json()}),
            MetaVal::V1(v) => json!({"v1": v}),
            MetaVal::V2(v, r) => json!({"v2": [v, r]}),
            MetaVal::Opt(n) => json!({"opt": n}),
            MetaVal::Unser => json!({"unserializable": true}),
        }
    }
    pub fn from_json(v: &Value) -> MetaVal {
        if let Some(g) = v.get("generic") {
            MetaVal::Generic(TV::from_json(g))
        } else if v.get("unserializable").is_some() {
            MetaVal::Unser
        } else if let Some(n) = v.get("opt") {
            MetaVal::Opt(n.as_str().map(String::from))
        } else if let Some(s) = v.get("v1") {
            MetaVal::V1(s.as_str().unwrap().into())
        } else {
            MetaVal::V2(v["v2"][0].as_str().unwrap().into(), v["v2"][1].as_i64().unwrap())
        }
    }
}

/// What a metadata type sees of a stored table (None = does not deserialise as that type). Uses the harness's own types.
pub fn seen_as(m: MType, stored: &Option<TV>) -> Option<Option<TV>> {
    match m {
        MType::Generic => Some(stored.clone()),
        MType::V1 => stored.as_ref().and_then(|t| t.to_toml().try_into::<V1>().ok()).map(|v| Some(MetaVal::V1(v.version).tv())),
        MType::V2 => stored.as_ref().and_then(|t| t.to_toml().try_into::<V2>().ok()).map(|v| Some(MetaVal::V2(v.version, v.rev).tv())),
        MType::Opt => stored.as_ref().and_then(|t| t.to_toml().try_into::<Opt>().ok()).map(|v| Some(MetaVal::Opt(v.note).tv())),
    }
}

pub trait MetaT: Serialize + DeserializeOwned + Clone + 'static {
    fn to_seen(&self) -> Option<TV>;
    fn from_val(v: &MetaVal) -> Self;
}
impl MetaT for GenericMetadata {
    fn to_seen(&self) -> Option<TV> {
        self.as_ref().map(TV::from_toml_table)
    }
    fn from_val(v: &MetaVal) -> Self {
        Some(v.tv().to_toml_table())
    }
}
impl MetaT for V1 {
    fn to_seen(&self) -> Option<TV> {
        Some(MetaVal::V1(self.version.clone()).tv())
    }
    fn from_val(v: &MetaVal) -> Self {
        match v {
            MetaVal::V1(s) | MetaVal::V2(s, _) => V1 { version: s.clone() },
            MetaVal::Generic(_) | MetaVal::Unser | MetaVal::Opt(_) => V1 { version: "from-generic".into() },
        }
    }
}
impl MetaT for V2 {
    fn to_seen(&self) -> Option<TV> {
        Some(MetaVal::V2(self.version.clone(), self.rev).tv())
    }
    fn from_val(v: &MetaVal) -> Self {
        match v {
            MetaVal::V2(s, r) => V2 { version: s.clone(), rev: *r },
            MetaVal::V1(s) => V2 { version: s.clone(), rev: 0 },
            MetaVal::Generic(_) | MetaVal::Unser | MetaVal::Opt(_) => V2 { version: "from-generic".into(), rev: -1 },
        }
    }
}
impl MetaT for Opt {
    fn to_seen(&self) -> Option<TV> {
        Some(MetaVal::Opt(self.note.clone()).tv())
    }
    fn from_val(v: &MetaVal) -> Self {
        match v {
            MetaVal::Opt(n) => Opt { note: n.clone() },
            MetaVal::V1(s) | MetaVal::V2(s, _) => Opt { note: Some(s.clone()) },
            MetaVal::Generic(_) | MetaVal::Unser => Opt { note: None },
        }
    }
}

/// the value a Replace decision writes, as the table it becomes on disk (depends on the request's metadata type)
pub fn replace_tv(m: MType, v: &MetaVal) -> TV {
    match m {
        MType::Generic => GenericMetadata::from_val(v).to_seen().unwrap(),
        MType::V1 => V1::from_val(v).to_seen().unwrap(),
        MType::V2 => V2::from_val(v).to_seen().unwrap(),
        MType::Opt => Opt::from_val(v).to_seen().unwrap(),
    }
}

// ---------------- operations ----------------

#[derive(Clone, Debug, PartialEq)]
pub struct RDec {
    keep: bool,
    cause: Option<i32>,
    wrap: bool,
    err: bool,
}
#[derive(Clone, Debug, PartialEq)]
pub struct IDec {
    replace: Option<MetaVal>,
    cause: Option<i32>,
    wrap: bool,
    err: bool,
}

#[derive(Clone, Debug, PartialEq)]
pub enum Op {
    Cached { name: u8, build: bool, launch: bool, m: MType, on_restored: RDec, on_invalid: IDec },
    Uncached { name: u8, build: bool, launch: bool },
    WriteMetadata { name: u8, value: MetaVal },
    WriteEnv { name: u8, entries: Vec<EnvEntry> },
    WriteSboms { name: u8, sboms: Vec<(u8, Vec<u8>)> },
    WriteExecD { name: u8, progs: Vec<(String, Vec<u8>)> },
    WritePlain { name: u8, path: String, data: Vec<u8> },
    /// an exec.d write that FAILS (one source file does not exist) — only used by C12's operations: the state it leaves
    /// behind is not modelled, a following successful write has to clean up after it
    WriteExecDMissing { name: u8, progs: Vec<(String, Vec<u8>)> },
    /// a symbolic link created by the buildpack inside the layer (target may dangle)
    WriteLink { name: u8, path: String, target: String },
    /// the next write to this layer goes through the PREVIOUS LayerRef of the current build (if the layer was requested
    /// more than once) instead of the most recent one — every LayerRef of a layer stays usable
    UseOlderRef { name: u8 },
    Restore,
}

pub fn mtype_name(m: MType) -> &'static str {
    match m {
        MType::Generic => "generic",
        MType::V1 => "v1",
        MType::V2 => "v2",
        MType::Opt => "opt",
    }
}

fn op_json(o: &Op) -> Value {
    match o {
        Op::Cached { name, build, launch, m, on_restored: r, on_invalid: i } => json!({"cached": {"name": name, "build": build, "launch": launch, "m": mtype_name(*m),
            "on_restored": {"keep": r.keep, "cause": r.cause, "wrap": r.wrap, "err": r.err},
            "on_invalid": {"replace": i.replace.as_ref().map(MetaVal::to_json), "cause": i.cause, "wrap": i.wrap, "err": i.err}}}),
        Op::Uncached { name, build, launch } => json!({"uncached": {"name": name, "build": build, "launch": launch}}),
        Op::WriteMetadata { name, value } => json!({"write_metadata": {"name": name, "value": value.to_json()}}),
        Op::WriteEnv { name, entries } => json!({"write_env": {"name": name, "entries": entries_to_json(entries)}}),
        Op::WriteSboms { name, sboms } => json!({"write_sboms": {"name": name, "sboms": sboms.iter().map(|(f, d)| json!([f, bytes_to_json(d)])).collect::<Vec<_>>()}}),
        Op::WriteExecD { name, progs } => json!({"write_exec_d": {"name": name, "progs": progs.iter().map(|(n, d)| json!([n, bytes_to_json(d)])).collect::<Vec<_>>()}}),
        Op::WritePlain { name, path, data } => json!({"write_plain": {"name": name, "path": path, "data": bytes_to_json(data)}}),
        Op::UseOlderRef { name } => json!({"use_older_ref": {"name": name}}),
        Op::WriteExecDMissing { name, progs } => json!({"write_exec_d_missing": {"name": name, "progs": progs.iter().map(|(n, d)| json!([n, bytes_to_json(d)])).collect::<Vec<_>>()}}),
        Op::WriteLink { name, path, target } => json!({"write_link": {"name": name, "path": path, "target": target}}),
        Op::Restore => json!("restore"),
    }
}

fn op_from_json(v: &Value) -> Op {
    if v == "restore" {
        return Op::Restore;
    }
    let (k, x) = v.as_object().unwrap().iter().next().unwrap();
    let name = x["name"].as_u64().unwrap() as u8;
    let oi = |v: &Value| v.as_i64().map(|c| c as i32);
    match k.as_str() {
        "cached" => Op::Cached {
            name,
            build: x["build"].as_bool().unwrap(),
            launch: x["launch"].as_bool().unwrap(),
            m: match x["m"].as_str().unwrap() { "generic" => MType::Generic, "v1" => MType::V1, "opt" => MType::Opt, _ => MType::V2 },
            on_restored: RDec { keep: x["on_restored"]["keep"].as_bool().unwrap(), cause: oi(&x["on_restored"]["cause"]), wrap: x["on_restored"]["wrap"].as_bool().unwrap(), err: x["on_restored"]["err"].as_bool().unwrap() },
            on_invalid: IDec { replace: if x["on_invalid"]["replace"].is_null() { None } else { Some(MetaVal::from_json(&x["on_invalid"]["replace"])) }, cause: oi(&x["on_invalid"]["cause"]), wrap: x["on_invalid"]["wrap"].as_bool().unwrap(), err: x["on_invalid"]["err"].as_bool().unwrap() },
        },
        "uncached" => Op::Uncached { name, build: x["build"].as_bool().unwrap(), launch: x["launch"].as_bool().unwrap() },
        "write_metadata" => Op::WriteMetadata { name, value: MetaVal::from_json(&x["value"]) },
        "write_env" => Op::WriteEnv { name, entries: entries_from_json(&x["entries"]) },
        "write_sboms" => Op::WriteSboms { name, sboms: x["sboms"].as_array().unwrap().iter().map(|p| (p[0].as_u64().unwrap() as u8, json_to_bytes(&p[1]))).collect() },
        "use_older_ref" => Op::UseOlderRef { name },
        "write_exec_d_missing" => Op::WriteExecDMissing { name, progs: x["progs"].as_array().unwrap().iter().map(|p| (p[0].as_str().unwrap().to_string(), json_to_bytes(&p[1]))).collect() },
        "write_link" => Op::WriteLink { name, path: x["path"].as_str().unwrap().into(), target: x["target"].as_str().unwrap().into() },
        "write_exec_d" => Op::WriteExecD { name, progs: x["progs"].as_array().unwrap().iter().map(|p| (p[0].as_str().unwrap().to_string(), json_to_bytes(&p[1]))).collect() },
        _ => Op::WritePlain { name, path: x["path"].as_str().unwrap().into(), data: json_to_bytes(&x["data"]) },
    }
}

pub fn history_json(h: &[Op]) -> Value {
    Value::Array(h.iter().map(op_json).collect())
}
pub fn history_from_json(v: &Value) -> Vec<Op> {
    v.as_array().unwrap().iter().map(op_from_json).collect()
}

// ---------------- normalised results / logs ----------------

#[derive(Clone, Debug, PartialEq)]
pub enum NState {
    Restored(Option<i32>),
    EmptyNew,
    EmptyInvalid(Option<i32>),
    EmptyRestoredAction(Option<i32>),
}

#[derive(Clone, Debug, PartialEq)]
pub enum Log {
    Restored { seen: Option<TV>, path: PathBuf },
    Invalid { generic: Option<TV> },
}

fn log_eq(a: &[Log], b: &[Log]) -> bool {
    // a callback asked again with the very same arguments decides the same: consecutive repeats are collapsed
    let same = |x: &Log, y: &Log| match (x, y) {
        (Log::Restored { seen: s1, path: p1 }, Log::Restored { seen: s2, path: p2 }) => p1 == p2 && opt_tv_eq(s1, s2),
        (Log::Invalid { generic: g1 }, Log::Invalid { generic: g2 }) => opt_tv_eq(g1, g2),
        _ => false,
    };
    let mut a2: Vec<&Log> = vec![];
    for x in a {
        if a2.last().map(|l| same(l, x)) != Some(true) {
            a2.push(x);
        }
    }
    let a = a2;
    a.len() == b.len()
        && a.iter().zip(b).all(|(x, y)| match (*x, y) {
            (Log::Restored { seen: s1, path: p1 }, Log::Restored { seen: s2, path: p2 }) => p1 == p2 && opt_tv_eq(s1, s2),
            (Log::Invalid { generic: g1 }, Log::Invalid { generic: g2 }) => opt_tv_eq(g1, g2),
            _ => false,
        })
}
fn opt_tv_eq(a: &Option<TV>, b: &Option<TV>) -> bool {
    meta_eq(a, b)
}

trait CauseLike: Copy + 'static {
    fn opt(&self) -> Option<i32>;
}
impl CauseLike for () {
    fn opt(&self) -> Option<i32> {
        None
    }
}
impl CauseLike for i32 {
    fn opt(&self) -> Option<i32> {
        Some(*self)
    }
}

/// object-safe view of a LayerRef, independent of its cause types
trait RefOps {
    fn nstate(&self) -> NState;
    fn lpath(&self) -> PathBuf;
    fn w_metadata(&self, v: &MetaVal) -> Result<(), String>;
    fn w_env(&self, e: &[EnvEntry]) -> Result<(), String>;
    fn w_sboms(&self, s: &[(u8, Vec<u8>)]) -> Result<(), String>;
    fn w_execd(&self, progs: Vec<(String, PathBuf)>) -> Result<(), String>;
    fn r_env(&self) -> Result<libcnb::layer_env::LayerEnv, String>;
}

impl<MAC: CauseLike, RAC: CauseLike> RefOps for LayerRef<HB, MAC, RAC> {
    fn nstate(&self) -> NState {
        match &self.state {
            LayerState::Restored { cause } => NState::Restored(cause.opt()),
            LayerState::Empty { cause: EmptyLayerCause::NewlyCreated } => NState::EmptyNew,
            LayerState::Empty { cause: EmptyLayerCause::InvalidMetadataAction { cause } } => NState::EmptyInvalid(cause.opt()),
            LayerState::Empty { cause: EmptyLayerCause::RestoredLayerAction { cause } } => NState::EmptyRestoredAction(cause.opt()),
        }
    }
    fn lpath(&self) -> PathBuf {
        self.path()
    }
    fn w_metadata(&self, v: &MetaVal) -> Result<(), String> {
        match v {
            MetaVal::Generic(t) => self.write_metadata(t.to_toml_table()),
            MetaVal::V1(s) => self.write_metadata(V1 { version: s.clone() }),
            MetaVal::V2(s, r) => self.write_metadata(V2 { version: s.clone(), rev: *r }),
            MetaVal::Opt(n) => self.write_metadata(Opt { note: n.clone() }),
            MetaVal::Unser => {
                #[derive(Serialize)]
                struct Big {
                    version: String,
                    too_big: u64,
                }
                self.write_metadata(Big { version: "1".into(), too_big: u64::MAX })
            }
        }
        .map_err(|e| format!("{e:?}"))
    }
    fn w_env(&self, e: &[EnvEntry]) -> Result<(), String> {
        self.write_env(to_layer_env(e)).map_err(|e| format!("{e:?}"))
    }
    fn w_sboms(&self, s: &[(u8, Vec<u8>)]) -> Result<(), String> {
        let v: Vec<Sbom> = s.iter().map(|(f, d)| Sbom::from_bytes(sbom_format(*f), d.clone())).collect();
        self.write_sboms(&v).map_err(|e| format!("{e:?}"))
    }
    fn w_execd(&self, progs: Vec<(String, PathBuf)>) -> Result<(), String> {
        self.write_exec_d_programs(progs).map_err(|e| format!("{e:?}"))
    }
    fn r_env(&self) -> Result<libcnb::layer_env::LayerEnv, String> {
        self.read_env().map_err(|e| format!("{e:?}"))
    }
}

/// the four IntoAction shapes
trait Shape<T> {
    type Out: IntoAction<T, Self::C, HErr>;
    type C: CauseLike;
    fn make(action: T, cause: Option<i32>, err: bool) -> Self::Out;
}
struct Plain;
struct Wrapped;
struct Tupled;
struct WrappedTupled;
impl<T> Shape<T> for Plain {
    type Out = T;
    type C = ();
    fn make(action: T, _c: Option<i32>, _e: bool) -> T {
        action
    }
}
impl<T> Shape<T> for Wrapped {
    type Out = Result<T, HErr>;
    type C = ();
    fn make(action: T, _c: Option<i32>, err: bool) -> Self::Out {
        if err { Err(HErr("scripted".into())) } else { Ok(action) }
    }
}
impl<T> Shape<T> for Tupled {
    type Out = (T, i32);
    type C = i32;
    fn make(action: T, c: Option<i32>, _e: bool) -> Self::Out {
        (action, c.unwrap_or(0))
    }
}
impl<T> Shape<T> for WrappedTupled {
    type Out = Result<(T, i32), HErr>;
    type C = i32;
    fn make(action: T, c: Option<i32>, err: bool) -> Self::Out {
        if err { Err(HErr("scripted".into())) } else { Ok((action, c.unwrap_or(0))) }
    }
}

type ReqResult = Result<Box<dyn RefOps>, String>;

fn do_cached<M: MetaT, SI: Shape<InvalidMetadataAction<M>>, SR: Shape<RestoredLayerAction>>(
    bc: &BuildContext<HB>,
    name: &LayerName,
    build: bool,
    launch: bool,
    r: &RDec,
    i: &IDec,
    log: &RefCell<Vec<Log>>,
) -> ReqResult
where
    LayerRef<HB, SI::C, SR::C>: RefOps,
{
    let inv = |g: &GenericMetadata| -> SI::Out {
        log.borrow_mut().push(Log::Invalid { generic: g.as_ref().map(TV::from_toml_table) });
        let action = match &i.replace {
            Some(v) => InvalidMetadataAction::ReplaceMetadata(M::from_val(v)),
            None => InvalidMetadataAction::DeleteLayer,
        };
        SI::make(action, i.cause, i.err)
    };
    let res = |m: &M, p: &Path| -> SR::Out {
        log.borrow_mut().push(Log::Restored { seen: m.to_seen(), path: p.to_path_buf() });
        SR::make(if r.keep { RestoredLayerAction::KeepLayer } else { RestoredLayerAction::DeleteLayer }, r.cause, r.err)
    };
    let def = CachedLayerDefinition { build, launch, invalid_metadata_action: &inv, restored_layer_action: &res };
    match bc.cached_layer::<M, SI::Out, SR::Out, SI::C, SR::C>(name, def) {
        Ok(lr) => Ok(Box::new(lr)),
        Err(libcnb::Error::BuildpackError(e)) => Err(format!("buildpack-error:{}", e.0)),
        Err(e) => Err(format!("other-error:{e:?}")),
    }
}

fn dispatch_cached(bc: &BuildContext<HB>, name: &LayerName, build: bool, launch: bool, m: MType, r: &RDec, i: &IDec, log: &RefCell<Vec<Log>>) -> ReqResult {
    macro_rules! with_shapes {
        ($M:ty) => {{
            macro_rules! with_si {
                ($SI:ty) => {
                    match (r.cause.is_some(), r.wrap) {
                        (false, false) => do_cached::<$M, $SI, Plain>(bc, name, build, launch, r, i, log),
                        (false, true) => do_cached::<$M, $SI, Wrapped>(bc, name, build, launch, r, i, log),
                        (true, false) => do_cached::<$M, $SI, Tupled>(bc, name, build, launch, r, i, log),
                        (true, true) => do_cached::<$M, $SI, WrappedTupled>(bc, name, build, launch, r, i, log),
                    }
                };
            }
            match (i.cause.is_some(), i.wrap) {
                (false, false) => with_si!(Plain),
                (false, true) => with_si!(Wrapped),
                (true, false) => with_si!(Tupled),
                (true, true) => with_si!(WrappedTupled),
            }
        }};
    }
    match m {
        MType::Generic => with_shapes!(GenericMetadata),
        MType::V1 => with_shapes!(V1),
        MType::V2 => with_shapes!(V2),
        MType::Opt => with_shapes!(Opt),
    }
}

// ---------------- model of a request ----------------

pub fn model_request(l: &mut MLayer, path: &Path, cached: bool, build: bool, launch: bool, m: MType, r: &RDec, i: &IDec) -> (Result<NState, ()>, Vec<Log>) {
    let types = (build, launch, cached);
    if !l.dir {
        *l = MLayer::fresh(types);
        return (Ok(NState::EmptyNew), vec![]);
    }
    let mut log = vec![];
    let stored = l.toml.as_ref().and_then(|t| t.metadata.clone());
    let mut seen = seen_as(m, &stored);
    if seen.is_none() {
        log.push(Log::Invalid { generic: stored.clone() });
        if i.err {
            return (Err(()), log);
        }
        match &i.replace {
            None => {
                *l = MLayer::fresh(types);
                return (Ok(NState::EmptyInvalid(i.cause)), log);
            }
            Some(v) => {
                let tv = replace_tv(m, v);
                l.toml.as_mut().unwrap().metadata = Some(tv.clone());
                seen = seen_as(m, &Some(tv));
                assert!(seen.is_some(), "replacement value must be valid for its type");
            }
        }
    }
    log.push(Log::Restored { seen: seen.unwrap(), path: path.to_path_buf() });
    if r.err {
        return (Err(()), log);
    }
    if r.keep {
        l.toml.as_mut().unwrap().types = Some(types);
        (Ok(NState::Restored(r.cause)), log)
    } else {
        *l = MLayer::fresh(types);
        (Ok(NState::EmptyRestoredAction(r.cause)), log)
    }
}

// ---------------- interpreter ----------------

pub struct HistOutcome {
    pub steps: usize,
    pub nontrivial: bool,
    pub classes: Vec<&'static str>,
    pub fail: Option<Fail>,
}

pub fn run_history(scratch: &Path, h: &[Op], names: &[&str]) -> HistOutcome {
    let root = scratch.join(format!("h-{:016x}-{:?}", hash_of(&history_json(h).to_string()), std::thread::current().id()).replace(['(', ')'], ""));
    run_history_in(&root, h, names, true)
}

/// `cleanup = false` leaves the resulting scenario directory in place (prepared states for C12)
pub fn run_history_in(root: &Path, h: &[Op], names: &[&str], cleanup: bool) -> HistOutcome {
    let root = root.to_path_buf();
    let _ = fsutil::force_remove(&root);
    let bc = make_context(&root);
    let side = root.join("side");
    let mut model = Model::default();
    for n in names {
        model.layer(n);
    }
    let mut refs: BTreeMap<u8, Vec<Box<dyn RefOps>>> = BTreeMap::new();
    let mut use_older: std::collections::BTreeSet<u8> = Default::default();
    let mut out = HistOutcome { steps: 0, nontrivial: false, classes: vec![], fail: None };
    let mut restored_since = false;
    let r = (|| -> Check {
        for (step, op) in h.iter().enumerate() {
            out.steps += 1;
            let ctxmsg = |f: Fail| Fail::new(f.sig.clone(), format!("step {step} ({}): {}", op_json(op), f.msg));
            match op {
                Op::Cached { name, .. } | Op::Uncached { name, .. } => {
                    let lname = names[*name as usize % names.len()];
                    let ln: LayerName = lname.parse().expect("layer name");
                    let others_before = others_snapshot(&bc.layers_dir, lname);
                    let own_before = model.layers.get(lname).cloned().unwrap_or_default();
                    if restored_since && own_before.carries_data() {
                        out.nontrivial = true;
                    }
                    let log = RefCell::new(vec![]);
                    let lpath = bc.layers_dir.join(lname);
                    let (got, want, want_log) = match op {
                        Op::Cached { build, launch, m, on_restored, on_invalid, .. } => {
                            out.classes.push("request:cached");
                            let got = dispatch_cached(&bc, &ln, *build, *launch, *m, on_restored, on_invalid, &log);
                            let (want, wl) = model_request(model.layer(lname), &lpath, true, *build, *launch, *m, on_restored, on_invalid);
                            (got, want, wl)
                        }
                        Op::Uncached { build, launch, .. } => {
                            out.classes.push("request:uncached");
                            let got: ReqResult = match bc.uncached_layer(&ln, UncachedLayerDefinition { build: *build, launch: *launch }) {
                                Ok(lr) => Ok(Box::new(lr)),
                                Err(e) => Err(format!("other-error:{e:?}")),
                            };
                            let rd = RDec { keep: false, cause: None, wrap: false, err: false };
                            let id = IDec { replace: None, cause: None, wrap: false, err: false };
                            let (want, _) = model_request(model.layer(lname), &lpath, false, *build, *launch, MType::Generic, &rd, &id);
                            (got, want, vec![])
                        }
                        _ => unreachable!(),
                    };
                    // 1. result
                    match (&got, &want) {
                        (Ok(lr), Ok(ws)) => {
                            let gs = lr.nstate();
                            // an uncached request has no callbacks: which Empty cause it reports is not decided
                            let undecided_cause = matches!(op, Op::Uncached { .. }) && !matches!(gs, NState::Restored(_)) && !matches!(ws, NState::Restored(_));
                            if gs != *ws && !undecided_cause {
                                return Err(ctxmsg(Fail::new("C01:reported-state-differs", format!("layer {lname:?}: reported {gs:?}, callbacks decided {ws:?}"))));
                            }
                            match ws {
                                NState::Restored(_) => out.classes.push("state:restored"),
                                NState::EmptyNew => out.classes.push("state:empty-new"),
                                NState::EmptyInvalid(_) => out.classes.push("state:empty-invalid-metadata"),
                                NState::EmptyRestoredAction(_) => out.classes.push("state:empty-restored-action"),
                            }
                            ensure!(lr.lpath() == lpath, "C01:layer-path", "path() = {:?}", lr.lpath());
                        }
                        (Err(e), Err(())) => {
                            if !e.starts_with("buildpack-error:scripted") {
                                return Err(ctxmsg(Fail::new("C01:wrong-error-kind", format!("callback returned Err, request returned {e}"))));
                            }
                            out.classes.push("request:callback-error");
                        }
                        (Ok(lr), Err(())) => return Err(ctxmsg(Fail::new("C01:callback-error-swallowed", format!("callback returned Err but the request succeeded with {:?}", lr.nstate())))),
                        (Err(e), Ok(ws)) => return Err(ctxmsg(Fail::new("C01:request-failed", format!("expected {ws:?}, got error {e}")))),
                    }
                    // 2. callback log
                    let got_log = log.into_inner();
                    if !log_eq(&got_log, &want_log) {
                        return Err(ctxmsg(Fail::new("C01:callback-invocations-differ", format!("layer {lname:?}: callbacks invoked {got_log:?}, expected {want_log:?}"))));
                    }
                    // 3./5. disk == model for this layer (after Ok: new state; after a callback Err: unchanged, or metadata
                    //       replaced before the error — whichever of the two the implementation chose)
                    if matches!((&got, &want), (Err(_), Err(()))) {
                        settle_after_error(&bc.layers_dir, &mut model, names, lname, vec![own_before.clone()]);
                    }
                    compare_disk("C01", &bc.layers_dir, &model, names).map_err(&ctxmsg)?;
                    if let (Ok(_), Ok(ws)) = (&got, &want) {
                        if !matches!(ws, NState::Restored(_)) {
                            // an empty layer has no entries at all
                            let left: Vec<String> = fsutil::snapshot(&lpath).iter().filter(|(p, e)| !p.is_empty() && !matches!(e.kind, fsutil::Kind::Dir)).map(|(p, _)| fsutil::show_path(p)).collect();
                            ensure!(left.is_empty(), "C01:empty-layer-keeps-files", "step {step}: layer {lname:?} reported empty but its directory still holds {left:?}");
                        }
                    }
                    // 4. other layers byte-identical
                    let others_after = others_snapshot(&bc.layers_dir, lname);
                    let d = fsutil::diff(&others_before, &others_after, 4);
                    if !d.is_empty() {
                        return Err(ctxmsg(Fail::new("C01:other-layer-touched", format!("{d:?}"))));
                    }
                    if let Ok(lr) = &got {
                        check_read_env(lr.as_ref(), model.layer(lname), &lpath).map_err(&ctxmsg)?;
                    }
                    match got {
                        Ok(lr) => {
                            refs.entry(*name % names.len() as u8).or_default().push(lr);
                        }
                        Err(_) => {
                            refs.remove(&(*name % names.len() as u8));
                        }
                    }
                }
                Op::UseOlderRef { name } => {
                    use_older.insert(*name % names.len() as u8);
                }
                Op::WriteExecDMissing { .. } => {}
                Op::Restore => {
                    out.classes.push("restore");
                    model.restore();
                    restore_on_disk(&bc.layers_dir, &model);
                    refs.clear();
                    use_older.clear();
                    restored_since = true;
                    compare_disk("harness", &bc.layers_dir, &model, names).map_err(|f| Fail::new("harness:restore-model-mismatch", f.msg))?;
                }
                Op::WriteMetadata { name, .. } | Op::WriteEnv { name, .. } | Op::WriteSboms { name, .. } | Op::WriteExecD { name, .. } | Op::WritePlain { name, .. } | Op::WriteLink { name, .. } => {
                    let key = *name % names.len() as u8;
                    let lname = names[key as usize];
                    let Some(stack) = refs.get(&key).filter(|v| !v.is_empty()) else {
                        out.classes.push("write:skipped-no-layer-ref");
                        continue;
                    };
                    let lr = if use_older.remove(&key) && stack.len() >= 2 {
                        out.classes.push("write:through-an-older-layer-ref");
                        &stack[stack.len() - 2]
                    } else {
                        &stack[stack.len() - 1]
                    };
                    let others_before = others_snapshot(&bc.layers_dir, lname);
                    let res = match op {
                        Op::WriteMetadata { value: MetaVal::Unser, .. } => {
                            out.classes.push("write:metadata-that-cannot-be-serialised");
                            // must be refused, and the content metadata (incl. the types) must stay as it was
                            match lr.w_metadata(&MetaVal::Unser) {
                                Err(_) => Ok(()),
                                Ok(()) => Err("write_metadata accepted a value TOML cannot represent".to_string()),
                            }
                        }
                        Op::WriteMetadata { value, .. } => {
                            out.classes.push("write:metadata");
                            model.layer(lname).toml.as_mut().unwrap().metadata = Some(value.tv());
                            lr.w_metadata(value)
                        }
                        Op::WriteEnv { entries, .. } => {
                            out.classes.push("write:env");
                            model.layer(lname).set_env(entries);
                            lr.w_env(entries)
                        }
                        Op::WriteSboms { sboms, .. } => {
                            out.classes.push("write:sboms");
                            // one SBOM per format per call (what several SBOMs of one format mean is not documented)
                            let uniq: BTreeMap<u8, Vec<u8>> = sboms.iter().cloned().collect();
                            model.layer(lname).sboms = uniq.clone();
                            lr.w_sboms(&uniq.into_iter().collect::<Vec<_>>())
                        }
                        Op::WriteExecD { progs, .. } => {
                            out.classes.push("write:exec.d");
                            let m: BTreeMap<String, Vec<u8>> = progs.iter().cloned().collect();
                            let srcs: Vec<(String, PathBuf)> = m.iter().map(|(n, d)| (n.clone(), exec_d_source(&side, n, d))).collect();
                            model.layer(lname).execd = m;
                            lr.w_execd(srcs)
                        }
                        Op::WritePlain { path, data, .. } => {
                            out.classes.push("write:plain");
                            let p = lr.lpath().join(path);
                            std::fs::create_dir_all(p.parent().unwrap()).unwrap();
                            std::fs::write(&p, data).unwrap();
                            model.layer(lname).plain.insert(path.clone(), data.clone());
                            Ok(())
                        }
                        Op::WriteLink { path, target, .. } => {
                            out.classes.push("write:symlink");
                            let p = lr.lpath().join(path);
                            std::fs::create_dir_all(p.parent().unwrap()).unwrap();
                            let _ = std::fs::remove_file(&p);
                            std::os::unix::fs::symlink(target, &p).unwrap();
                            model.layer(lname).links.insert(path.clone(), target.clone());
                            Ok(())
                        }
                        _ => unreachable!(),
                    };
                    if let Err(e) = res {
                        return Err(ctxmsg(Fail::new("C01:write-failed", e)));
                    }
                    compare_disk("C01", &bc.layers_dir, &model, names).map_err(&ctxmsg)?;
                    let lp = lr.lpath();
                    check_read_env(lr.as_ref(), model.layer(lname), &lp).map_err(&ctxmsg)?;
                    let others_after = others_snapshot(&bc.layers_dir, lname);
                    let d = fsutil::diff(&others_before, &others_after, 4);
                    if !d.is_empty() {
                        return Err(ctxmsg(Fail::new("C01:other-layer-touched", format!("{d:?}"))));
                    }
                }
            }
        }
        Ok(())
    })();
    out.fail = r.err();
    drop(refs);
    if cleanup {
        let _ = fsutil::force_remove(&root);
    }
    out
}

/// `LayerRef::read_env` must describe what is on disk: explicit entries of the model plus the implicit layer paths
fn check_read_env(lr: &dyn RefOps, l: &MLayer, lpath: &Path) -> Check {
    let env = lr.r_env().map_err(|e| Fail::new("C01:read-env-failed", e))?;
    let implicit = crate::props::c02::implicit_of(l, lpath);
    let mut queries = vec![Sc::All, Sc::Build, Sc::Launch, Sc::Process("unknown-proc".into())];
    for e in &l.env {
        if matches!(e.scope, Sc::Process(_)) && !queries.contains(&e.scope) {
            queries.push(e.scope.clone());
        }
    }
    let mut e1 = EnvMap::new();
    e1.insert(b"PATH".to_vec(), b"/usr/bin".to_vec());
    e1.insert(b"A".to_vec(), vec![]);
    for q in &queries {
        for e0 in [&EnvMap::new(), &e1] {
            let got = from_env(&env.apply(q.to_libcnb(), &to_env(e0)));
            let want = ref_apply(&l.env, &implicit, q, e0);
            if got != want {
                let sig = if got == ref_apply(&l.env, &[], q, e0) { "C01:read-env-lacks-implicit-layer-paths" } else { "C01:read-env-differs-from-disk" };
                return Err(Fail::new(sig, format!("scope {q:?}: read_env applies to {}, the layer on disk means {}", envmap_to_json(&got), envmap_to_json(&want))));
            }
        }
    }
    Ok(())
}

// ---------------- generators ----------------

pub fn small_bytes() -> impl Strategy<Value = Vec<u8>> {
    prop_oneof![Just(vec![]), Just(b"{}".to_vec()), proptest::collection::vec(any::<u8>(), 1..10)]
}

pub fn metaval_strategy() -> impl Strategy<Value = MetaVal> {
    prop_oneof![
        2 => prop_oneof![Just("1.0".to_string()), Just(String::new()), Just("2 \"q\"".to_string())].prop_map(MetaVal::V1),
        2 => (prop_oneof![Just("1.0".to_string()), Just("x".to_string())], prop_oneof![Just(0i64), Just(-7i64), Just(i64::MAX)]).prop_map(|(v, r)| MetaVal::V2(v, r)),
        1 => prop_oneof![Just(MetaVal::Opt(None)), Just(MetaVal::Opt(Some("n".to_string())))],
        2 => prop_oneof![
            Just(TV::Table(vec![])),
            Just(TV::table(vec![("other", TV::Int(1))])),
            Just(TV::table(vec![("version", TV::Int(3))])),
            Just(TV::table(vec![("version", TV::s("g")), ("rev", TV::s("not-int"))])),
            Just(TV::table(vec![("version", TV::s("g")), ("extra", TV::table(vec![("nested", TV::Array(vec![TV::Bool(true)]))]))])),
        ].prop_map(MetaVal::Generic),
        1 => Just(MetaVal::Unser),
    ]
}

fn cause_strategy() -> impl Strategy<Value = Option<i32>> {
    prop_oneof![Just(None), Just(Some(7)), Just(Some(-1))]
}

fn rdec_strategy() -> impl Strategy<Value = RDec> {
    (proptest::bool::weighted(0.6), cause_strategy(), any::<bool>(), proptest::bool::weighted(0.1)).prop_map(|(keep, cause, wrap, err)| RDec { keep, cause, wrap: wrap || err, err })
}
fn idec_strategy() -> impl Strategy<Value = IDec> {
    (proptest::option::weighted(0.5, metaval_strategy()), cause_strategy(), any::<bool>(), proptest::bool::weighted(0.1)).prop_map(|(replace, cause, wrap, err)| IDec { replace, cause, wrap: wrap || err, err })
}
pub fn mtype_strategy() -> impl Strategy<Value = MType> {
    prop_oneof![2 => Just(MType::Generic), 2 => Just(MType::V1), 2 => Just(MType::V2), 1 => Just(MType::Opt)]
}

fn env_entries() -> impl Strategy<Value = Vec<EnvEntry>> {
    proptest::collection::vec(crate::props::c03::entry_strategy(), 0..4)
}

fn op_strategy(nnames: u8) -> impl Strategy<Value = Op> {
    let name = 0..nnames;
    prop_oneof![
        8 => (name.clone(), any::<bool>(), any::<bool>(), mtype_strategy(), rdec_strategy(), idec_strategy()).prop_map(|(name, build, launch, m, on_restored, on_invalid)| Op::Cached { name, build, launch, m, on_restored, on_invalid }),
        2 => (name.clone(), any::<bool>(), any::<bool>()).prop_map(|(name, build, launch)| Op::Uncached { name, build, launch }),
        3 => (name.clone(), metaval_strategy()).prop_map(|(name, value)| Op::WriteMetadata { name, value }),
        2 => (name.clone(), env_entries()).prop_map(|(name, entries)| Op::WriteEnv { name, entries }),
        2 => (name.clone(), proptest::collection::vec((0u8..3, small_bytes()), 0..4)).prop_map(|(name, sboms)| Op::WriteSboms { name, sboms }),
        2 => (name.clone(), proptest::collection::vec((prop_oneof![Just("a".to_string()), Just("prog two".to_string()), Just("z.sh".to_string())], small_bytes()), 0..3)).prop_map(|(name, progs)| Op::WriteExecD { name, progs }),
        2 => (name.clone(), prop_oneof![Just("file.txt".to_string()), Just("bin/tool".to_string()), Just("lib/libx.so".to_string()), Just("data/nested/deep.bin".to_string()), Just("include/x.h".to_string())], small_bytes()).prop_map(|(name, path, data)| Op::WritePlain { name, path, data }),
        1 => name.clone().prop_map(|name| Op::UseOlderRef { name }),
        5 => Just(Op::Restore),
    ]
}

fn write_op_strategy(name: u8) -> impl Strategy<Value = Op> {
    prop_oneof![
        3 => metaval_strategy().prop_map(move |value| Op::WriteMetadata { name, value }),
        2 => env_entries().prop_map(move |entries| Op::WriteEnv { name, entries }),
        2 => proptest::collection::vec((0u8..3, small_bytes()), 0..4).prop_map(move |sboms| Op::WriteSboms { name, sboms }),
        2 => proptest::collection::vec((prop_oneof![Just("a".to_string()), Just("prog two".to_string()), Just("z.sh".to_string())], small_bytes()), 0..3).prop_map(move |progs| Op::WriteExecD { name, progs }),
        2 => (prop_oneof![Just("file.txt".to_string()), Just("bin/tool".to_string()), Just("lib/libx.so".to_string()), Just("data/nested/deep.bin".to_string())], small_bytes()).prop_map(move |(path, data)| Op::WritePlain { name, path, data }),
        1 => (prop_oneof![Just("current".to_string()), Just("bin/tool-link".to_string()), Just("data/latest".to_string())], prop_oneof![Just("does/not/exist".to_string()), Just("file.txt".to_string()), Just("/nonexistent/abs".to_string()), Just("data".to_string())]).prop_map(move |(path, target)| Op::WriteLink { name, path, target }),
    ]
}

/// builds separated by restores; inside a build each request is followed by writes to the layer it returned
fn structured_history_strategy(nnames: u8, max_builds: usize) -> impl Strategy<Value = Vec<Op>> {
    let group = (0..nnames).prop_flat_map(move |name| {
        let req = prop_oneof![
            6 => (any::<bool>(), any::<bool>(), mtype_strategy(), rdec_strategy(), idec_strategy()).prop_map(move |(build, launch, m, on_restored, on_invalid)| Op::Cached { name, build, launch, m, on_restored, on_invalid }),
            1 => (any::<bool>(), any::<bool>()).prop_map(move |(build, launch)| Op::Uncached { name, build, launch }),
        ];
        let req2 = (any::<bool>(), any::<bool>(), mtype_strategy(), rdec_strategy(), idec_strategy()).prop_map(move |(build, launch, m, on_restored, on_invalid)| Op::Cached { name, build, launch, m, on_restored, on_invalid });
        (req, proptest::collection::vec(write_op_strategy(name), 0..4), proptest::option::weighted(0.25, (req2, write_op_strategy(name)))).prop_map(move |(r, mut w, again)| {
            let mut v = vec![r];
            v.append(&mut w);
            if let Some((r2, w2)) = again {
                // request the layer a second time (other flags / type) and write through the FIRST reference
                v.push(r2);
                v.push(Op::UseOlderRef { name });
                v.push(w2);
            }
            v
        })
    });
    let build = proptest::collection::vec(group, 1..4).prop_map(|g| g.into_iter().flatten().collect::<Vec<Op>>());
    proptest::collection::vec(build, 1..max_builds).prop_map(|builds| {
        let mut h = vec![];
        for (i, b) in builds.into_iter().enumerate() {
            if i > 0 {
                h.push(Op::Restore);
            }
            h.extend(b);
        }
        h
    })
}

/// reduced alphabet for the bounded-exhaustive sub-run (one layer name)
fn reduced_alphabet() -> Vec<Op> {
    let mut ops = vec![];
    let rdecs = [
        RDec { keep: true, cause: None, wrap: false, err: false },
        RDec { keep: false, cause: None, wrap: true, err: false },
        RDec { keep: true, cause: Some(7), wrap: false, err: false },
        RDec { keep: false, cause: None, wrap: true, err: true },
    ];
    let idecs = [
        IDec { replace: None, cause: None, wrap: false, err: false },
        IDec { replace: Some(MetaVal::V1("migrated".into())), cause: Some(3), wrap: true, err: false },
        IDec { replace: None, cause: None, wrap: true, err: true },
    ];
    for m in [MType::Generic, MType::V1] {
        for r in &rdecs {
            for i in &idecs {
                ops.push(Op::Cached { name: 0, build: true, launch: m == MType::V1, m, on_restored: r.clone(), on_invalid: i.clone() });
            }
        }
    }
    ops.push(Op::Uncached { name: 0, build: false, launch: true });
    ops.push(Op::WriteMetadata { name: 0, value: MetaVal::V1("1.0".into()) });
    ops.push(Op::WriteMetadata { name: 0, value: MetaVal::Generic(TV::table(vec![("other", TV::Int(1))])) });
    ops.push(Op::WriteEnv { name: 0, entries: vec![EnvEntry { scope: crate::envmodel::Sc::Process("web".into()), beh: crate::envmodel::Beh::Append, name: b"A.B".to_vec(), value: b"v".to_vec() }, EnvEntry { scope: crate::envmodel::Sc::All, beh: crate::envmodel::Beh::Default, name: b"X".to_vec(), value: vec![] }] });
    ops.push(Op::WriteSboms { name: 0, sboms: vec![(2, b"{}".to_vec())] });
    ops.push(Op::WriteExecD { name: 0, progs: vec![("p".into(), b"#!".to_vec())] });
    ops.push(Op::WritePlain { name: 0, path: "bin/tool".into(), data: b"x".to_vec() });
    ops.push(Op::WriteLink { name: 0, path: "current".into(), target: "does/not/exist".into() });
    ops.push(Op::Restore);
    ops
}

fn absorb(ctx: &Ctx, h: &[Op], o: crate::histworker::Outcome, sub: &str, nnames: usize) -> bool {
    ctx.eval();
    ctx.extra_add("steps_executed", o.steps as u64);
    for c in &o.classes {
        ctx.class(c);
    }
    if o.nontrivial {
        ctx.class("history:nontrivial");
        ctx.nontrivial(hash_of(&history_json(h).to_string()));
        if h.len() >= 4 && (ctx.samples_len() < 2 || hash_of(&history_json(h).to_string()) % 29 == 0) {
            ctx.sample(5, || history_json(h));
        }
    }
    match o.fail {
        None => true,
        Some(f) => ctx.check_case(sub, Err(f), || json!({"names": nnames, "history": history_json(h)})),
    }
}

pub fn run(ctx: &Ctx) {
    ctx.set_rule("histories of layer requests (cached x build/launch x metadata type {generic, V1, V2, Opt (all fields optional: an empty [metadata] table is valid, an absent one is not)} x restored-callback decisions {keep, delete, with/without cause, plain/Result shape, error} x invalid-metadata decisions {delete, replace with a valid value, causes, shapes, error}; uncached x flags), layer writes through the returned LayerRef (metadata of the three types, env over all four scopes with byte-string names, SBOM sets, exec.d sets, plain files incl. bin/ lib/, symbolic links incl. dangling ones) and simulated lifecycle restores (cache=true keeps dir+metadata+SBOMs without types; launch-only keeps the metadata file only; others vanish) over 3 (quick) / 5 (thorough) layer names (prefix-related: 'alpha', 'alpha2', 'alpha.v2 layer' with a dot and a space; thorough adds a non-ASCII one), executed against a real BuildContext on a temp layers directory and against a reference model, compared after EVERY step. bounded-exhaustive: all histories of length <= 3 over a reduced alphabet of 33 operations on one layer (37 060 histories) plus all histories of the shape request, write(s), restore, request over the same alphabet; sampled: histories of length <= 24 (quick) / <= 60 (thorough). Oracle: reported state == callback decisions (an uncached request may report any Empty cause); callback invocation log (which callback, with which metadata and path) == model; disk == model (files bytewise, content metadata via Python tomllib, SBOM files), an empty layer holds no file or link (empty directories do not count), LayerRef::read_env == explicit entries + implicit layer paths of the model after every request and write, other layers byte-identical; absent and empty metadata / absent and all-false types are equal; after a callback Err the layer may be as before or as far as the model got. Non-trivial: history contains a restore followed by a request on a layer that at that moment has a directory and at least one of {SBOM, env entry, exec.d program, metadata}; distinct = hash of the operation list.");
    ctx.assume("the lifecycle is the abstraction stated in the property's quantifier, applied to the real directory by the harness");
    ctx.assume("malformed TOML and hand-edited env directories are not generated");
    ctx.set_exhaustive(true);
    ctx.extra("exhaustive_subspace", json!("histories of length <= 3 over the reduced 32-operation alphabet; longer histories are sampled"));
    let scratch = Scratch::new("c01");
    for (_p, v) in ctx.regress_files() {
        replay(ctx, "", &v["case"]);
    }
    // bounded exhaustive
    let alpha = reduced_alphabet();
    let mut hs: Vec<Vec<Op>> = vec![vec![]];
    for a in &alpha {
        hs.push(vec![a.clone()]);
        for b in &alpha {
            hs.push(vec![a.clone(), b.clone()]);
            for c in &alpha {
                hs.push(vec![a.clone(), b.clone(), c.clone()]);
            }
        }
    }
    // pattern-exhaustive: request, write(s), restore, request — the shortest shape in which a restored layer carries data
    let reqs: Vec<&Op> = alpha.iter().filter(|o| matches!(o, Op::Cached { .. } | Op::Uncached { .. })).collect();
    let writes: Vec<&Op> = alpha.iter().filter(|o| matches!(o, Op::WriteMetadata { .. } | Op::WriteEnv { .. } | Op::WriteSboms { .. } | Op::WriteExecD { .. } | Op::WritePlain { .. } | Op::WriteLink { .. })).collect();
    for a in &reqs {
        for w in &writes {
            for b in &reqs {
                hs.push(vec![(*a).clone(), (*w).clone(), Op::Restore, (*b).clone()]);
                if ctx.tier == Tier::Thorough {
                    for w2 in &writes {
                        hs.push(vec![(*a).clone(), (*w).clone(), (*w2).clone(), Op::Restore, (*b).clone()]);
                    }
                }
            }
        }
    }
    ctx.class_n("exhaustive:histories", hs.len() as u64);
    // two names sharing a prefix; the second is never requested and must stay absent. Histories run in contained worker
    // processes (one per core) so that a hard crash of the code under test is a failed case, not a dead engine.
    let chunks: Vec<&[Vec<Op>]> = hs.chunks(hs.len().div_ceil(ncpu())).collect();
    let outs: Vec<Vec<crate::histworker::Outcome>> = par_map(&chunks, ncpu(), |chunk| {
        let mut w = crate::histworker::HistWorker::new("c01", 2, &scratch.path);
        chunk.iter().map(|h| w.run(&history_json(h))).collect()
    });
    'outer: for (chunk, res) in chunks.iter().zip(outs) {
        for (h, o) in chunk.iter().zip(res) {
            if !absorb(ctx, h, o, "exhaustive", 2) {
                break 'outer;
            }
        }
    }
    // sampled deeper
    let thorough = ctx.tier == Tier::Thorough;
    let nn = if thorough { 5 } else { 3 };
    let maxlen = if thorough { 60 } else { 24 };
    let worker = RefCell::new(crate::histworker::HistWorker::new("c01", nn, &scratch.path));
    ctx.run_prop(
        "sampled",
        prop_oneof![
            1 => proptest::collection::vec(op_strategy(nn as u8), 0..maxlen),
            3 => structured_history_strategy(nn as u8, if thorough { 7 } else { 5 }),
        ],
        ctx.tier.pick(1500, 40_000),
        |h| json!({"names": nn, "history": history_json(h)}),
        |h| {
            let o = worker.borrow_mut().run(&history_json(h));
            ctx.eval();
            ctx.extra_add("steps_executed", o.steps as u64);
            for c in &o.classes {
                ctx.class(c);
            }
            if o.nontrivial {
                ctx.class("history:nontrivial");
                ctx.nontrivial(hash_of(&history_json(h).to_string()));
                if (ctx.samples_len() < 2 || hash_of(&history_json(h).to_string()) % 101 == 0) {
                    ctx.sample(8, || history_json(h));
                }
            }
            match o.fail {
                None => Ok(()),
                Some(f) => Err(f),
            }
        },
    );
    let _ = pick_idx(0, 1);
}

pub fn replay(ctx: &Ctx, _sub: &str, case: &Value) {
    let scratch = Scratch::new("c01r");
    let (h, nn) = if case.is_array() { (history_from_json(case), 2) } else { (history_from_json(&case["history"]), case["names"].as_u64().unwrap_or(3) as usize) };
    let o = crate::histworker::HistWorker::new("c01", nn, &scratch.path).run(&history_json(&h));
    ctx.eval();
    if let Some(f) = o.fail {
        ctx.check_case("replay", Err(f), || case.clone());
    }
}

/// Run a history (restores ignored) against a given context without a model — used by the scripted buildpack (C20).
pub fn apply_ops(bc: &BuildContext<HB>, ops: &[Op], names: &[&str], side: &Path) -> Result<(), String> {
    let mut refs: BTreeMap<u8, Box<dyn RefOps>> = BTreeMap::new();
    for op in ops {
        match op {
            Op::Restore | Op::UseOlderRef { .. } => {}
            Op::WriteExecDMissing { name, progs } => {
                if let Some(lr) = refs.get(&(*name % names.len() as u8)) {
                    let m: BTreeMap<String, Vec<u8>> = progs.iter().cloned().collect();
                    let mut srcs: Vec<(String, PathBuf)> = m.iter().map(|(n, d)| (n.clone(), exec_d_source(side, n, d))).collect();
                    srcs.push(("zz-missing-program".to_string(), side.join("this-source-file-does-not-exist")));
                    if lr.w_execd(srcs).is_ok() {
                        return Err("write_exec_d_programs with a missing source file reported success".to_string());
                    }
                }
            }
            Op::Cached { name, build, launch, m, on_restored, on_invalid } => {
                let key = *name % names.len() as u8;
                let ln: LayerName = names[key as usize].parse().map_err(|_| "layer name".to_string())?;
                let log = RefCell::new(vec![]);
                match dispatch_cached(bc, &ln, *build, *launch, *m, on_restored, on_invalid, &log) {
                    Ok(lr) => {
                        refs.insert(key, lr);
                    }
                    Err(e) if e.starts_with("buildpack-error") => {
                        refs.remove(&key);
                    }
                    Err(e) => return Err(e),
                }
            }
            Op::Uncached { name, build, launch } => {
                let key = *name % names.len() as u8;
                let ln: LayerName = names[key as usize].parse().map_err(|_| "layer name".to_string())?;
                match bc.uncached_layer(&ln, UncachedLayerDefinition { build: *build, launch: *launch }) {
                    Ok(lr) => {
                        refs.insert(key, Box::new(lr));
                    }
                    Err(e) => return Err(format!("{e:?}")),
                }
            }
            Op::WriteMetadata { name, value } => {
                if let Some(lr) = refs.get(&(*name % names.len() as u8)) {
                    lr.w_metadata(value)?;
                }
            }
            Op::WriteEnv { name, entries } => {
                if let Some(lr) = refs.get(&(*name % names.len() as u8)) {
                    lr.w_env(entries)?;
                    let _ = lr.r_env()?;
                }
            }
            Op::WriteSboms { name, sboms } => {
                if let Some(lr) = refs.get(&(*name % names.len() as u8)) {
                    let uniq: BTreeMap<u8, Vec<u8>> = sboms.iter().cloned().collect();
                    lr.w_sboms(&uniq.into_iter().collect::<Vec<_>>())?;
                }
            }
            Op::WriteExecD { name, progs } => {
                if let Some(lr) = refs.get(&(*name % names.len() as u8)) {
                    let m: BTreeMap<String, Vec<u8>> = progs.iter().cloned().collect();
                    lr.w_execd(m.iter().map(|(n, d)| (n.clone(), exec_d_source(side, n, d))).collect())?;
                }
            }
            Op::WritePlain { name, path, data } => {
                if let Some(lr) = refs.get(&(*name % names.len() as u8)) {
                    let p = lr.lpath().join(path);
                    std::fs::create_dir_all(p.parent().unwrap()).map_err(|e| e.to_string())?;
                    std::fs::write(&p, data).map_err(|e| e.to_string())?;
                }
            }
            Op::WriteLink { name, path, target } => {
                if let Some(lr) = refs.get(&(*name % names.len() as u8)) {
                    let p = lr.lpath().join(path);
                    std::fs::create_dir_all(p.parent().unwrap()).map_err(|e| e.to_string())?;
                    let _ = std::fs::remove_file(&p);
                    std::os::unix::fs::symlink(target, &p).map_err(|e| e.to_string())?;
                }
            }
        }
    }
    Ok(())
}

pub fn history_strategy_for_bp(nnames: u8) -> impl Strategy<Value = Vec<Op>> {
    structured_history_strategy(nnames, 2)
}

/// one request followed by writes, without scripted callback errors (every Err is then an I/O error)
pub fn errorless_group_strategy(nnames: u8) -> impl Strategy<Value = Vec<Op>> {
    (0..nnames).prop_flat_map(move |name| {
        let req = prop_oneof![
            6 => (any::<bool>(), any::<bool>(), mtype_strategy(), rdec_strategy(), idec_strategy()).prop_map(move |(build, launch, m, mut on_restored, mut on_invalid)| {
                on_restored.err = false;
                on_invalid.err = false;
                Op::Cached { name, build, launch, m, on_restored, on_invalid }
            }),
            1 => (any::<bool>(), any::<bool>()).prop_map(move |(build, launch)| Op::Uncached { name, build, launch }),
        ];
        (req, proptest::collection::vec(write_op_strategy(name), 0..4)).prop_map(|(r, mut w)| {
            let mut v = vec![r];
            v.append(&mut w);
            v
        })
    })
}

pub fn setup_history_strategy(nnames: u8) -> impl Strategy<Value = Vec<Op>> {
    structured_history_strategy(nnames, 2).prop_map(|mut h| {
        // no scripted errors in the setup either, and end with a restore so that the test operation meets restored layers
        for o in h.iter_mut() {
            if let Op::Cached { on_restored, on_invalid, .. } = o {
                on_restored.err = false;
                on_invalid.err = false;
            }
        }
        h.push(Op::Restore);
        h
    })
}

/// a cached layer that carries an environment (all four scopes possible) and survives the restore — the state in which
/// reading the existing layer's environment matters (C12: a failed read of one of its files)
pub fn env_layer_setup_strategy(nnames: u8) -> impl Strategy<Value = (u8, Vec<Op>)> {
    (0..nnames, proptest::collection::vec(crate::props::c03::entry_strategy(), 1..5), any::<bool>()).prop_map(|(name, entries, launch)| {
        let h = vec![
            Op::Cached { name, build: true, launch, m: MType::Generic, on_restored: RDec { keep: true, cause: None, wrap: false, err: false }, on_invalid: IDec { replace: None, cause: None, wrap: false, err: false } },
            Op::WriteEnv { name, entries },
            Op::Restore,
        ];
        (name, h)
    })
}

/// request, an exec.d write that fails (missing source), then further writes incl. a successful exec.d write
pub fn group_with_failed_execd_strategy(nnames: u8) -> impl Strategy<Value = Vec<Op>> {
    (errorless_group_strategy(nnames), proptest::collection::vec((prop_oneof![Just("a".to_string()), Just("b c".to_string())], small_bytes()), 1..3), proptest::collection::vec((prop_oneof![Just("fresh".to_string()), Just("a".to_string())], small_bytes()), 1..3)).prop_map(|(mut g, stale, fresh)| {
        let name = match &g[0] {
            Op::Cached { name, .. } | Op::Uncached { name, .. } => *name,
            _ => 0,
        };
        g.truncate(1);
        g.push(Op::WriteExecDMissing { name, progs: stale });
        g.push(Op::WriteExecD { name, progs: fresh });
        g
    })
}
