//! C09 — validated identifiers and versions accept exactly the spec grammar.

use crate::core::{Check, Ctx, Fail, Scratch, Tier, hash_of, ncpu, par_map, pick_idx, verif_root};
use libcnb_data::buildpack::{BuildpackApi, BuildpackId, BuildpackVersion};
use libcnb_data::exec_d::ExecDProgramOutputKey;
use libcnb_data::launch::ProcessType;
use libcnb_data::layer::LayerName;
use proptest::prelude::*;
use serde::Deserialize;
use serde_json::{Value, json};
use std::collections::BTreeMap;

#[derive(Clone, Copy, Debug, PartialEq, Eq, Hash, PartialOrd, Ord)]
pub enum Kind {
    LayerName,
    ProcessType,
    BuildpackId,
    ExecDKey,
    Version,
    Api,
}

pub const NEWTYPES: [Kind; 4] = [Kind::LayerName, Kind::ProcessType, Kind::BuildpackId, Kind::ExecDKey];

impl Kind {
    fn name(self) -> &'static str {
        match self {
            Kind::LayerName => "LayerName",
            Kind::ProcessType => "ProcessType",
            Kind::BuildpackId => "BuildpackId",
            Kind::ExecDKey => "ExecDProgramOutputKey",
            Kind::Version => "BuildpackVersion",
            Kind::Api => "BuildpackApi",
        }
    }
    fn from_name(s: &str) -> Kind {
        [Kind::LayerName, Kind::ProcessType, Kind::BuildpackId, Kind::ExecDKey, Kind::Version, Kind::Api]
            .into_iter()
            .find(|k| k.name() == s)
            .expect("kind")
    }
    fn macro_name(self) -> &'static str {
        match self {
            Kind::LayerName => "layer_name",
            Kind::ProcessType => "process_type",
            Kind::BuildpackId => "buildpack_id",
            Kind::ExecDKey => "exec_d_program_output_key",
            _ => unreachable!(),
        }
    }
}

// ---------------------------------------------------------------------------------------------
// Hand-written recognisers (no regex). None = the spec does not decide this string; only agreement
// between the acceptance paths is checked then.
// ---------------------------------------------------------------------------------------------

fn is_ascii_alnum(c: char) -> bool {
    c.is_ascii_alphabetic() || c.is_ascii_digit()
}

fn dec_fits_u64(s: &str) -> bool {
    // s consists of ASCII digits only; decide value <= u64::MAX without parsing via std
    let t = s.trim_start_matches('0');
    const MAX: &str = "18446744073709551615";
    t.len() < MAX.len() || (t.len() == MAX.len() && t <= MAX)
}

fn dec_value(s: &str) -> u64 {
    let mut v: u64 = 0;
    for c in s.chars() {
        v = v * 10 + (c as u64 - '0' as u64);
    }
    v
}

pub fn recognise(kind: Kind, s: &str) -> Option<bool> {
    match kind {
        Kind::LayerName => {
            if s.is_empty() || s == "build" || s == "launch" || s == "store" {
                return Some(false);
            }
            // The spec puts no character rule on layer names; libcnb documents "all characters supported by the
            // filesystem". '\n', '/', NUL are therefore left undecided (paths must still agree).
            if s.contains('\n') || s.contains('/') || s.contains('\0') {
                return None;
            }
            // equally undecided: names no directory can have or that consist of nothing visible — ".", "..", control
            // characters, whitespace only (a hardened LayerName may refuse them)
            if s == "." || s == ".." || s.chars().any(|c| c.is_control()) || s.chars().all(|c| c.is_whitespace()) {
                return None;
            }
            Some(true)
        }
        Kind::ProcessType => Some(!s.is_empty() && s.chars().all(|c| is_ascii_alnum(c) || c == '.' || c == '_' || c == '-')),
        Kind::BuildpackId => Some(
            !s.is_empty()
                && s != "app"
                && s != "config"
                && s != "sbom"
                && s.chars().all(|c| is_ascii_alnum(c) || c == '.' || c == '/' || c == '-'),
        ),
        Kind::ExecDKey => Some(!s.is_empty() && s.chars().all(|c| is_ascii_alnum(c) || c == '_' || c == '-')),
        Kind::Version => {
            let parts: Vec<&str> = s.split('.').collect();
            // "non-negative integers": whether a component beyond u64::MAX is representable is not decided
            if parts.len() == 3 && parts.iter().all(|p| !p.is_empty() && p.chars().all(|c| c.is_ascii_digit()) && (*p == "0" || !p.starts_with('0'))) && parts.iter().any(|p| !dec_fits_u64(p)) {
                return None;
            }
            Some(
                parts.len() == 3
                    && parts.iter().all(|p| {
                        !p.is_empty()
                            && p.chars().all(|c| c.is_ascii_digit())
                            && (*p == "0" || !p.starts_with('0'))
                            && dec_fits_u64(p)
                    }),
            )
        }
        Kind::Api => {
            let parts: Vec<&str> = s.split('.').collect();
            if (parts.len() == 1 || parts.len() == 2) && parts.iter().all(|p| !p.is_empty() && p.chars().all(|c| c.is_ascii_digit())) && parts.iter().any(|p| !dec_fits_u64(p)) {
                return None;
            }
            Some(
                (parts.len() == 1 || parts.len() == 2)
                    && parts
                        .iter()
                        .all(|p| !p.is_empty() && p.chars().all(|c| c.is_ascii_digit()) && dec_fits_u64(p)),
            )
        }
    }
}

fn ref_version(s: &str) -> (u64, u64, u64) {
    let p: Vec<&str> = s.split('.').collect();
    (dec_value(p[0]), dec_value(p[1]), dec_value(p[2]))
}
fn ref_api(s: &str) -> (u64, u64) {
    let p: Vec<&str> = s.split('.').collect();
    (dec_value(p[0]), if p.len() > 1 { dec_value(p[1]) } else { 0 })
}

// ---------------------------------------------------------------------------------------------
// Acceptance paths of the implementation
// ---------------------------------------------------------------------------------------------

#[derive(Deserialize)]
struct Wrap<T> {
    v: T,
}

fn toml_doc(s: &str) -> String {
    // independent minimal TOML basic-string writer
    let mut o = String::from("v = \"");
    for c in s.chars() {
        match c {
            '"' => o.push_str("\\\""),
            '\\' => o.push_str("\\\\"),
            c if (c as u32) < 0x20 || c as u32 == 0x7f => o.push_str(&format!("\\u{:04X}", c as u32)),
            c => o.push(c),
        }
    }
    o.push_str("\"\n");
    o
}

/// (accepted by each path, and the rendered strings for accepted values)
struct Verdicts {
    parse: bool,
    toml: bool,
    json: bool,
    renders: Vec<(&'static str, String)>,
    value_eq_across_paths: bool,
}

fn newtype_verdicts<T>(s: &str) -> Verdicts
where
    T: std::str::FromStr + for<'de> Deserialize<'de> + std::fmt::Display + serde::Serialize + PartialEq + std::ops::Deref<Target = String>,
{
    let p = s.parse::<T>().ok();
    let t = toml::from_str::<Wrap<T>>(&toml_doc(s)).ok().map(|w| w.v);
    let j = serde_json::from_str::<Wrap<T>>(&json!({"v": s}).to_string()).ok().map(|w| w.v);
    let mut renders = vec![];
    let mut eq = true;
    if let Some(v) = &p {
        renders.push(("display", v.to_string()));
        renders.push(("as_str", v.as_str().to_string()));
        renders.push((
            "serialize",
            serde_json::to_value(v).ok().and_then(|x| x.as_str().map(String::from)).unwrap_or_else(|| "<not a string>".into()),
        ));
        if let Some(tv) = &t {
            eq &= tv == v;
        }
        if let Some(jv) = &j {
            eq &= jv == v;
        }
        // parse(display(v)) == v
        eq &= v.to_string().parse::<T>().ok().as_ref() == Some(v);
    }
    Verdicts {
        parse: p.is_some(),
        toml: t.is_some(),
        json: j.is_some(),
        renders,
        value_eq_across_paths: eq,
    }
}

pub fn check_string(kind: Kind, s: &str) -> Check {
    let want = recognise(kind, s);
    let tag = kind.name();
    match kind {
        Kind::Version => {
            let p = BuildpackVersion::try_from(s.to_string()).ok();
            let t = toml::from_str::<Wrap<BuildpackVersion>>(&toml_doc(s)).ok().map(|w| w.v);
            let j = serde_json::from_str::<Wrap<BuildpackVersion>>(&json!({"v": s}).to_string()).ok().map(|w| w.v);
            let Some(want) = want else {
                // undecided by the grammar (a component beyond u64::MAX): the three paths must still agree, and an
                // accepted value must still display as the string it was parsed from
                ensure!(p.is_some() == t.is_some() && p.is_some() == j.is_some(), format!("C09:{tag}:paths-disagree"), "{tag} {s:?}: try_from={} toml={} json={}", p.is_some(), t.is_some(), j.is_some());
                if let Some(v) = p {
                    ensure!(v.to_string() == s, format!("C09:{tag}:display-not-inverse"), "display(parse({s:?})) = {:?}", v.to_string());
                }
                return Ok(());
            };
            for (path, got) in [("try_from", p.is_some()), ("toml", t.is_some()), ("json", j.is_some())] {
                if got != want {
                    let sig = if got && (s.contains('+')) {
                        "C09:version-component-sign".to_string()
                    } else if got {
                        format!("C09:{tag}:accepts-invalid")
                    } else {
                        format!("C09:{tag}:rejects-valid")
                    };
                    return Err(Fail::new(sig, format!("{tag} {s:?}: path {path} accepted={got}, grammar says {want}")));
                }
            }
            if let Some(v) = p {
                let (a, b, c) = ref_version(s);
                ensure!((v.major, v.minor, v.patch) == (a, b, c), format!("C09:{tag}:wrong-value"), "{s:?} parsed as {v:?}");
                ensure!(v.to_string() == s, format!("C09:{tag}:display-not-inverse"), "display(parse({s:?})) = {:?}", v.to_string());
                ensure!(t.as_ref() == Some(&v) && j.as_ref() == Some(&v), format!("C09:{tag}:paths-disagree-on-value"), "{s:?}");
            }
        }
        Kind::Api => {
            let p = BuildpackApi::try_from(s.to_string()).ok();
            let t = toml::from_str::<Wrap<BuildpackApi>>(&toml_doc(s)).ok().map(|w| w.v);
            let j = serde_json::from_str::<Wrap<BuildpackApi>>(&json!({"v": s}).to_string()).ok().map(|w| w.v);
            let Some(want) = want else {
                ensure!(p.is_some() == t.is_some() && p.is_some() == j.is_some(), format!("C09:{tag}:paths-disagree"), "{tag} {s:?}: try_from={} toml={} json={}", p.is_some(), t.is_some(), j.is_some());
                return Ok(());
            };
            for (path, got) in [("try_from", p.is_some()), ("toml", t.is_some()), ("json", j.is_some())] {
                if got != want {
                    let sig = if got && s.contains('+') {
                        "C09:version-component-sign".to_string()
                    } else if got {
                        format!("C09:{tag}:accepts-invalid")
                    } else {
                        format!("C09:{tag}:rejects-valid")
                    };
                    return Err(Fail::new(sig, format!("{tag} {s:?}: path {path} accepted={got}, grammar says {want}")));
                }
            }
            if let Some(v) = p {
                let (a, b) = ref_api(s);
                ensure!((v.major, v.minor) == (a, b), format!("C09:{tag}:wrong-value"), "{s:?} parsed as {v:?}");
                let d = v.to_string();
                let back = BuildpackApi::try_from(d.clone()).ok();
                ensure!(back.as_ref() == Some(&v), format!("C09:{tag}:display-not-inverse"), "parse(display(parse({s:?}))) = {back:?} via {d:?}");
                ensure!(t.as_ref() == Some(&v) && j.as_ref() == Some(&v), format!("C09:{tag}:paths-disagree-on-value"), "{s:?}");
            }
        }
        _ => {
            let v = match kind {
                Kind::LayerName => newtype_verdicts::<LayerName>(s),
                Kind::ProcessType => newtype_verdicts::<ProcessType>(s),
                Kind::BuildpackId => newtype_verdicts::<BuildpackId>(s),
                Kind::ExecDKey => newtype_verdicts::<ExecDProgramOutputKey>(s),
                _ => unreachable!(),
            };
            ensure!(
                v.parse == v.toml && v.parse == v.json,
                format!("C09:{tag}:paths-disagree"),
                "{tag} {s:?}: parse={} toml={} json={}",
                v.parse,
                v.toml,
                v.json
            );
            if let Some(want) = want {
                if v.parse != want {
                    let sig = if v.parse { format!("C09:{tag}:accepts-invalid") } else { format!("C09:{tag}:rejects-valid") };
                    return Err(Fail::new(sig, format!("{tag} {s:?}: accepted={}, grammar says {want}", v.parse)));
                }
            }
            for (how, r) in &v.renders {
                ensure!(r == s, format!("C09:{tag}:render-differs"), "{tag} {s:?}: {how} gives {r:?}");
            }
            ensure!(v.value_eq_across_paths, format!("C09:{tag}:paths-disagree-on-value"), "{tag} {s:?}");
        }
    }
    Ok(())
}

// ---------------------------------------------------------------------------------------------
// Non-triviality: the string sits on the grammar's boundary
// ---------------------------------------------------------------------------------------------

const RESERVED: [&str; 6] = ["build", "launch", "store", "app", "config", "sbom"];

pub fn nontrivial(kind: Kind, s: &str) -> bool {
    let acc = |x: &str| recognise(kind, x) == Some(true);
    if RESERVED.iter().any(|r| s.to_ascii_lowercase().contains(r)) && matches!(kind, Kind::LayerName | Kind::BuildpackId) {
        return true;
    }
    let chars: Vec<char> = s.chars().collect();
    if acc(s) {
        // accepted and carrying something other than plain letters (punctuation, digits boundary, zero components)
        return match kind {
            Kind::Version | Kind::Api => chars.iter().any(|c| *c == '0') || s.len() > 15,
            _ => chars.iter().any(|c| !c.is_ascii_alphabetic()),
        };
    }
    // rejected: one deletion or one substitution away from an accepted string
    for i in 0..chars.len() {
        let mut d = chars.clone();
        d.remove(i);
        if acc(&d.iter().collect::<String>()) {
            return true;
        }
        for sub in ['a', '1'] {
            let mut d = chars.clone();
            d[i] = sub;
            if acc(&d.iter().collect::<String>()) {
                return true;
            }
        }
    }
    false
}

// ---------------------------------------------------------------------------------------------
// Generators
// ---------------------------------------------------------------------------------------------

/// one representative per character class relevant to any of the four identifier grammars
pub const ID_ALPHABET: [char; 14] = ['a', 'Z', '0', '.', '_', '-', '/', '+', '!', ' ', '\n', 'é', '٣', '\0'];
pub const VER_ALPHABET: [char; 9] = ['0', '1', '9', '.', '+', '-', ' ', 'a', '٣'];

pub fn all_strings(alphabet: &[char], max_len: usize) -> Vec<String> {
    let mut out = vec![String::new()];
    let mut frontier = vec![String::new()];
    for _ in 0..max_len {
        let mut next = Vec::with_capacity(frontier.len() * alphabet.len());
        for f in &frontier {
            for c in alphabet {
                let mut s = f.clone();
                s.push(*c);
                next.push(s);
            }
        }
        out.extend(next.iter().cloned());
        frontier = next;
    }
    out
}

fn reserved_variants() -> Vec<String> {
    let mut out = std::collections::BTreeSet::new();
    for w in RESERVED {
        let chars: Vec<char> = w.chars().collect();
        let n = chars.len();
        // every case variant
        for mask in 0..(1u32 << n) {
            let s: String = chars
                .iter()
                .enumerate()
                .map(|(i, c)| if mask >> i & 1 == 1 { c.to_ascii_uppercase() } else { *c })
                .collect();
            out.insert(s);
        }
        for i in 0..=n {
            out.insert(chars[..i].iter().collect()); // prefixes
            out.insert(chars[i..].iter().collect()); // suffixes
            for c in ID_ALPHABET {
                let mut e = chars.clone();
                e.insert(i, c); // one-character insertions (incl. prepend/append)
                out.insert(e.iter().collect());
            }
            if i < n {
                let mut d = chars.clone();
                d.remove(i);
                out.insert(d.iter().collect());
                for c in ID_ALPHABET {
                    let mut e = chars.clone();
                    e[i] = c;
                    out.insert(e.iter().collect());
                }
            }
        }
        for sep in ["/", ".", "-", "_", " ", "\n"] {
            out.insert(format!("{w}{sep}{w}"));
            out.insert(format!("x{sep}{w}"));
            out.insert(format!("{w}{sep}x"));
        }
    }
    out.into_iter().collect()
}

fn valid_chars(kind: Kind) -> Vec<char> {
    let mut v: Vec<char> = ('a'..='z').chain('A'..='Z').chain('0'..='9').collect();
    match kind {
        Kind::LayerName => v.extend(['.', '_', '-', ' ', '+', '!', 'é', '٣', '\t', '\r', '~']),
        Kind::ProcessType => v.extend(['.', '_', '-']),
        Kind::BuildpackId => v.extend(['.', '/', '-']),
        Kind::ExecDKey => v.extend(['_', '-']),
        _ => {}
    }
    v
}

fn long_string_strategy(kind: Kind) -> impl Strategy<Value = String> {
    let valid = valid_chars(kind);
    let valid2 = valid.clone();
    let any_char = prop_oneof![
        8 => any::<u16>().prop_map(move |i| valid[pick_idx(i, valid.len())]),
        2 => any::<u16>().prop_map(|i| ID_ALPHABET[pick_idx(i, ID_ALPHABET.len())]),
        1 => any::<char>(),
    ];
    prop_oneof![
        // valid by construction
        proptest::collection::vec(any::<u16>().prop_map(move |i| valid2[pick_idx(i, valid2.len())]), 1..41)
            .prop_map(|v| v.into_iter().collect::<String>()),
        proptest::collection::vec(any_char, 0..41).prop_map(|v| v.into_iter().collect::<String>()),
    ]
}

fn num_strategy() -> impl Strategy<Value = String> {
    prop_oneof![
        4 => any::<u64>().prop_map(|n| n.to_string()),
        3 => (0u64..12).prop_map(|n| n.to_string()),
        1 => Just("18446744073709551615".to_string()),
        1 => Just("18446744073709551616".to_string()),
        1 => Just("184467440737095516150".to_string()),
        1 => Just("99999999999999999999".to_string()),
        1 => Just("4294967296".to_string()),
        1 => (0u64..100).prop_map(|n| format!("0{n}")),
        1 => (0u64..100).prop_map(|n| format!("+{n}")),
        1 => (0u64..100).prop_map(|n| format!("-{n}")),
        1 => (0u64..100).prop_map(|n| format!(" {n}")),
        1 => (0u64..100).prop_map(|n| format!("{n} ")),
        1 => Just(String::new()),
        1 => Just("٣".to_string()),
        1 => Just("1e3".to_string()),
        1 => Just("0x1".to_string()),
        1 => Just("1_0".to_string()),
    ]
}

fn version_like_strategy() -> impl Strategy<Value = String> {
    (proptest::collection::vec(num_strategy(), 1..5), any::<u16>()).prop_map(|(parts, k)| {
        let seps = [".", ".", ".", ".", ". ", "..", ",", ""];
        let sep = seps[pick_idx(k, seps.len())];
        parts.join(sep)
    })
}

// ---------------------------------------------------------------------------------------------
// Compile-time literal macros: one cargo check over a generated crate
// ---------------------------------------------------------------------------------------------

fn rust_literal(s: &str) -> String {
    let mut o = String::from("\"");
    for c in s.chars() {
        match c {
            '"' => o.push_str("\\\""),
            '\\' => o.push_str("\\\\"),
            '\n' => o.push_str("\\n"),
            '\r' => o.push_str("\\r"),
            '\t' => o.push_str("\\t"),
            '\0' => o.push_str("\\0"),
            c if (c as u32) < 0x20 || (c as u32) >= 0x7f => o.push_str(&format!("\\u{{{:x}}}", c as u32)),
            c => o.push(c),
        }
    }
    o.push('"');
    o
}

/// Returns for every literal whether the macro accepted it (no compile_error diagnostic on its line).
fn macro_verdicts(literals: &[(Kind, String)]) -> Result<Vec<bool>, String> {
    let scratch = Scratch::new("c09macro");
    let dir = scratch.path.join("litcrate");
    std::fs::create_dir_all(dir.join("src")).map_err(|e| e.to_string())?;
    std::fs::write(
        dir.join("Cargo.toml"),
        "[package]\nname = \"litcrate\"\nversion = \"0.0.0\"\nedition = \"2024\"\n[workspace]\n[dependencies]\nlibcnb-data = { path = \"/repo/libcnb-data\" }\n",
    )
    .map_err(|e| e.to_string())?;
    let _ = std::fs::copy("/repo/Cargo.lock", dir.join("Cargo.lock"));
    let mut src = String::from("#![allow(unused)]\nfn main() {\n");
    // line numbers: first literal on line 3
    for (k, s) in literals {
        src.push_str(&format!("let _ = libcnb_data::{}!({});\n", k.macro_name(), rust_literal(s)));
    }
    src.push_str("}\n");
    std::fs::write(dir.join("src/main.rs"), &src).map_err(|e| e.to_string())?;
    let target = verif_root().join("harness/target/litcrate-target");
    let out = std::process::Command::new("cargo")
        .args(["check", "--offline", "--message-format=json", "-q"])
        .current_dir(&dir)
        .env("CARGO_TARGET_DIR", &target)
        .env("CARGO_NET_OFFLINE", "true")
        .output()
        .map_err(|e| format!("cargo check: {e}"))?;
    let stdout = String::from_utf8_lossy(&out.stdout);
    let mut rejected: BTreeMap<usize, String> = BTreeMap::new();
    let mut other_errors = vec![];
    fn find_line(span: &Value) -> Option<u64> {
        if span["file_name"].as_str().map(|f| f.ends_with("src/main.rs")).unwrap_or(false) {
            return span["line_start"].as_u64();
        }
        if !span["expansion"].is_null() {
            return find_line(&span["expansion"]["span"]);
        }
        None
    }
    for line in stdout.lines() {
        let Ok(v) = serde_json::from_str::<Value>(line) else { continue };
        if v["reason"] != "compiler-message" {
            continue;
        }
        let m = &v["message"];
        if m["level"] != "error" {
            continue;
        }
        let text = m["message"].as_str().unwrap_or("").to_string();
        if text.starts_with("aborting due to") || text.starts_with("could not compile") {
            continue;
        }
        let mut line_no = None;
        if let Some(spans) = m["spans"].as_array() {
            for sp in spans {
                if let Some(l) = find_line(sp) {
                    line_no = Some(l);
                    break;
                }
            }
        }
        match line_no {
            Some(l) if l >= 3 && text.contains("is not a valid") => {
                rejected.insert((l - 3) as usize, text);
            }
            _ => other_errors.push(text),
        }
    }
    if !other_errors.is_empty() {
        return Err(format!("unexpected compiler errors in literal crate: {:?}", &other_errors[..other_errors.len().min(3)]));
    }
    if !out.status.success() && rejected.is_empty() {
        return Err(format!(
            "cargo check failed without diagnostics: {}",
            String::from_utf8_lossy(&out.stderr).chars().take(600).collect::<String>()
        ));
    }
    if out.status.success() && !rejected.is_empty() {
        return Err("cargo check succeeded although compile_error diagnostics were seen".into());
    }
    // cross-check: the diagnostic text names the right type
    for (i, text) in &rejected {
        let (k, _) = &literals[*i];
        if !text.contains(k.name()) {
            return Err(format!("diagnostic/line mapping inconsistent at literal {i}: {text}"));
        }
    }
    Ok((0..literals.len()).map(|i| !rejected.contains_key(&i)).collect())
}

fn case_json(kind: Kind, s: &str) -> Value {
    json!({"kind": kind.name(), "s": s})
}

fn run_batch(ctx: &Ctx, sub: &str, class: &str, items: &[(Kind, String)]) {
    // pure oracle in parallel, bookkeeping on this thread
    let results = par_map(items, ncpu(), |(k, s)| (check_string(*k, s), nontrivial(*k, s)));
    for ((k, s), (r, nt)) in items.iter().zip(results) {
        ctx.eval();
        ctx.class(class);
        if recognise(*k, s) == Some(true) {
            ctx.class(&format!("accepted-by-grammar:{}", k.name()));
        }
        if nt {
            ctx.nontrivial(hash_of(&(k, s)));
            if ctx.samples_len() < 8 && s.len() > 1 && (ctx.samples_len() < 2 || hash_of(s) % 97 == 0) {
                ctx.sample(8, || case_json(*k, s));
            }
        }
        ctx.check_case(sub, r, || case_json(*k, s));
    }
}

pub fn run(ctx: &Ctx) {
    ctx.set_rule("per grammar: (1) all strings up to length L over a class-representative alphabet (identifiers: L=3 full 14-char alphabet + L=4 over 8 chars quick, L=5 thorough; versions: L=6 quick / 8 thorough over 9 chars), (2) reserved words with every prefix, suffix, case variant, one-char insertion/deletion/substitution, (2b) all concatenations of up to three tokens from a 30-word dictionary (reserved words, .toml/.sbom/.json, @, 1.2.3, separators), (3) random strings <=40 chars (half valid by construction), (4) version-like strings from boundary numbers and malformed separators, u64 triples display->parse; oracle: hand-written recognisers vs three acceptance paths (FromStr/TryFrom, TOML and JSON deserialisation, literal macros via one cargo check) + render/round-trip identities. Non-trivial: string contains a reserved word, or is accepted and carries non-letter characters (zero components for versions), or is rejected but one deletion/substitution away from an accepted string; distinct = hash of (grammar, string).");
    ctx.assume("LayerName strings containing newline, '/' or NUL are treated as undecided by the spec: only agreement of the three acceptance paths is required for them");
    ctx.assume("API versions with redundant leading zeros are accepted by the property ('plain digits')");
    ctx.set_exhaustive(true);
    ctx.extra("exhaustive_subspace", json!("strings up to the stated length bounds over the stated alphabets; random parts are sampled"));

    for (_p, v) in ctx.regress_files() {
        let k = Kind::from_name(v["case"]["kind"].as_str().unwrap());
        let s = v["case"]["s"].as_str().unwrap().to_string();
        ctx.eval();
        ctx.check_case("regress", check_string(k, &s), || case_json(k, &s));
    }

    let thorough = ctx.tier == Tier::Thorough;
    // (1) bounded exhaustive
    let id_strings = all_strings(&ID_ALPHABET, if thorough { 5 } else { 3 });
    let id_strings_small = if thorough { vec![] } else { all_strings(&['a', '0', '.', '_', '-', '/', '\n', 'é'], 4) };
    for k in NEWTYPES {
        let mut items: Vec<(Kind, String)> = id_strings.iter().map(|s| (k, s.clone())).collect();
        items.extend(id_strings_small.iter().filter(|s| s.chars().count() == 4).map(|s| (k, s.clone())));
        run_batch(ctx, "exhaustive", "exhaustive-identifier", &items);
    }
    let ver_strings = all_strings(&VER_ALPHABET, if thorough { 8 } else { 6 });
    for k in [Kind::Version, Kind::Api] {
        let items: Vec<(Kind, String)> = ver_strings.iter().map(|s| (k, s.clone())).collect();
        run_batch(ctx, "exhaustive", "exhaustive-version", &items);
    }
    // (2) reserved words
    let rv = reserved_variants();
    for k in NEWTYPES {
        let items: Vec<(Kind, String)> = rv.iter().map(|s| (k, s.clone())).collect();
        run_batch(ctx, "reserved", "reserved-word-variant", &items);
    }
    // (2b) concatenations of up to three tokens from a dictionary of words and separators that occur around these
    //      identifiers (file suffixes, version suffixes, reserved words)
    let dict = ["build", "launch", "store", "app", "config", "sbom", ".toml", ".sbom", ".json", ".cdx", ".", ".d", "-", "_", "/", "@", ":", "1.2.3", "0", "1", "cache", "layer", "env", "exec.d", "web", "x", "A", " ", "\n", "+"];
    let mut combos: Vec<String> = vec![];
    for a in dict {
        combos.push(a.to_string());
        for b in dict {
            combos.push(format!("{a}{b}"));
            for c in dict {
                combos.push(format!("{a}{b}{c}"));
            }
        }
    }
    combos.sort();
    combos.dedup();
    for k in NEWTYPES {
        let items: Vec<(Kind, String)> = combos.iter().map(|s| (k, s.clone())).collect();
        run_batch(ctx, "dictionary", "dictionary-concatenation", &items);
    }
    // (3) random longer strings
    let n_long = ctx.tier.pick(6_000, 250_000);
    for k in NEWTYPES {
        let items: Vec<(Kind, String)> = ctx
            .generate(&format!("long-{}", k.name()), &long_string_strategy(k), n_long)
            .into_iter()
            .map(|s| (k, s))
            .collect();
        run_batch(ctx, "long", "random-long", &items);
    }
    // (4) version-like strings (proptest-driven so that failures shrink)
    let n_ver = ctx.tier.pick(30_000, 1_000_000);
    for k in [Kind::Version, Kind::Api] {
        ctx.run_prop(
            &format!("versionlike-{}", k.name()),
            version_like_strategy(),
            n_ver,
            |s| case_json(k, s),
            |s| {
                ctx.eval();
                ctx.class("version-like");
                if recognise(k, s) == Some(true) {
                    ctx.class(&format!("accepted-by-grammar:{}", k.name()));
                }
                if nontrivial(k, s) {
                    ctx.nontrivial(hash_of(&(k, s)));
                    if (ctx.samples_len() < 2 || hash_of(s) % 4001 == 0) {
                        ctx.sample(12, || case_json(k, s));
                    }
                }
                check_string(k, s)
            },
        );
    }
    // u64 triples: display -> parse
    let bounds = [0u64, 1, 9, 10, 1 << 32, u64::MAX];
    for a in bounds {
        for b in bounds {
            ctx.eval();
            let api = format!("{a}.{b}");
            ctx.check_case("triples", check_string(Kind::Api, &api), || case_json(Kind::Api, &api));
            for c in bounds {
                ctx.eval();
                ctx.class("boundary-triple");
                let v = BuildpackVersion::new(a, b, c);
                let s = v.to_string();
                let r = (|| -> Check {
                    ensure!(s == format!("{a}.{b}.{c}"), "C09:BuildpackVersion:display", "display({v:?}) = {s:?}");
                    let back = BuildpackVersion::try_from(s.clone()).ok();
                    ensure!(back.as_ref() == Some(&v), "C09:BuildpackVersion:parse-not-inverse-of-display", "parse(display({v:?})) = {back:?}");
                    check_string(Kind::Version, &s)
                })();
                ctx.nontrivial(hash_of(&(Kind::Version, &s)));
                ctx.check_case("triples", r, || case_json(Kind::Version, &s));
            }
        }
    }
    ctx.run_prop(
        "random-triples",
        (any::<u64>(), any::<u64>(), any::<u64>()),
        ctx.tier.pick(5_000, 200_000),
        |t| json!({"triple": [t.0.to_string(), t.1.to_string(), t.2.to_string()]}),
        |(a, b, c)| {
            ctx.eval();
            let v = BuildpackVersion::new(*a, *b, *c);
            let back = BuildpackVersion::try_from(v.to_string()).ok();
            ensure!(back.as_ref() == Some(&v), "C09:BuildpackVersion:parse-not-inverse-of-display", "parse(display({v:?})) = {back:?}");
            let api = BuildpackApi { major: *a, minor: *b };
            let back = BuildpackApi::try_from(api.to_string()).ok();
            ensure!(back.as_ref() == Some(&api), "C09:BuildpackApi:parse-not-inverse-of-display", "parse(display({api:?})) = {back:?}");
            Ok(())
        },
    );

    if thorough {
        run_libfuzzer(ctx);
    }
    // (5) compile-time macros: differential against the recogniser and the run-time parser
    let n_lit = ctx.tier.pick(350, 5000);
    let mut literals: Vec<(Kind, String)> = vec![];
    for k in NEWTYPES {
        let mut pool: Vec<String> = all_strings(&ID_ALPHABET, 2);
        pool.extend(rv.iter().cloned());
        pool.extend(ctx.generate(&format!("lit-{}", k.name()), &long_string_strategy(k), n_lit));
        // deterministic thinning of the pool to n_lit literals, keeping every reserved-word variant that is one edit away
        let mut chosen: Vec<String> = pool
            .iter()
            .filter(|s| RESERVED.contains(&s.as_str()) || hash_of(&(ctx.seed, k, *s)) % (pool.len() as u64) < n_lit as u64)
            .cloned()
            .collect();
        // every dictionary token, and every two-token concatenation with a reserved word on either side, unthinned
        for (i, a) in dict.iter().enumerate() {
            chosen.push((*a).to_string());
            for (j, b) in dict.iter().enumerate() {
                if i < 6 || j < 6 {
                    chosen.push(format!("{a}{b}"));
                }
            }
        }
        chosen.sort();
        chosen.dedup();
        literals.extend(chosen.into_iter().map(|s| (k, s)));
    }
    match macro_verdicts(&literals) {
        Err(e) => ctx.inconclusive(format!("literal-macro differential could not run: {e}")),
        Ok(verdicts) => {
            for ((k, s), ok) in literals.iter().zip(verdicts) {
                ctx.eval();
                ctx.class("macro-literal");
                if ok {
                    ctx.class("macro-literal-accepted");
                }
                if nontrivial(*k, s) {
                    ctx.nontrivial(hash_of(&("macro", k, s)));
                }
                let r = (|| -> Check {
                    let rt = match k {
                        Kind::LayerName => s.parse::<LayerName>().is_ok(),
                        Kind::ProcessType => s.parse::<ProcessType>().is_ok(),
                        Kind::BuildpackId => s.parse::<BuildpackId>().is_ok(),
                        Kind::ExecDKey => s.parse::<ExecDProgramOutputKey>().is_ok(),
                        _ => unreachable!(),
                    };
                    ensure!(rt == ok, format!("C09:{}:macro-disagrees-with-parse", k.name()), "{} {s:?}: macro accepted={ok}, parse accepted={rt}", k.name());
                    if let Some(w) = recognise(*k, s) {
                        ensure!(w == ok, format!("C09:{}:macro-disagrees-with-grammar", k.name()), "{} {s:?}: macro accepted={ok}, grammar says {w}", k.name());
                    }
                    Ok(())
                })();
                ctx.check_case("macro", r, || json!({"kind": k.name(), "s": s, "path": "macro"}));
            }
        }
    }
}

/// Coverage-guided differential campaign (libFuzzer via cargo-fuzz), thorough tier only. The oracle inside the target
/// is `check_string`; a disagreement aborts the target and is turned into an ordinary replay case here.
fn run_libfuzzer(ctx: &Ctx) {
    if std::env::var_os("VERIF_SKIP_FUZZ").is_some() {
        ctx.extra("libfuzzer", json!("skipped (VERIF_SKIP_FUZZ set)"));
        return;
    }
    let fuzz_dir = verif_root().join("fuzz");
    let scratch = Scratch::new("c09fuzz");
    let corpus = scratch.path.join("corpus");
    std::fs::create_dir_all(&corpus).unwrap();
    // small valid inputs per grammar as seeds (byte 0 = grammar selector)
    for (i, (k, s)) in [(0u8, "my-layer"), (0, "build"), (1, "web.worker_1"), (2, "heroku/jvm"), (2, "sbom"), (3, "KEY_1"), (4, "1.2.3"), (4, "0.0.18446744073709551615"), (5, "0.10"), (5, "2")].iter().enumerate() {
        let mut b = vec![*k];
        b.extend_from_slice(s.as_bytes());
        std::fs::write(corpus.join(format!("seed{i}")), b).unwrap();
    }
    let runs: u64 = std::env::var("VERIF_FUZZ_RUNS").ok().and_then(|s| s.parse().ok()).unwrap_or(100_000);
    let out = std::process::Command::new("cargo")
        .args(["+nightly", "fuzz", "run", "--fuzz-dir"])
        .arg(&fuzz_dir)
        .arg("c09_grammar")
        .arg(&corpus)
        .arg("--")
        .args([format!("-runs={runs}"), format!("-seed={}", (ctx.seed % 0xffff_fffe) + 1), "-max_len=40".into(), "-len_control=0".into(), "-print_final_stats=1".into(), format!("-artifact_prefix={}/", scratch.path.display())])
        .env("CARGO_NET_OFFLINE", "true")
        .output();
    let out = match out {
        Ok(o) => o,
        Err(e) => {
            ctx.inconclusive(format!("cargo fuzz could not be started: {e}"));
            return;
        }
    };
    let stderr = String::from_utf8_lossy(&out.stderr).to_string();
    if let Some(line) = stderr.lines().find(|l| l.starts_with("C09-FUZZ-FAIL ")) {
        // re-derive the case from the artifact file (exact bytes)
        let art = std::fs::read_dir(&scratch.path).ok().and_then(|rd| rd.flatten().map(|e| e.path()).find(|p| p.file_name().map(|n| n.to_string_lossy().starts_with("crash-")).unwrap_or(false)));
        if let Some(bytes) = art.and_then(|a| std::fs::read(a).ok()) {
            if let (Some(k), Ok(s)) = (bytes.first(), std::str::from_utf8(&bytes[1.min(bytes.len())..])) {
                let kinds = [Kind::LayerName, Kind::ProcessType, Kind::BuildpackId, Kind::ExecDKey, Kind::Version, Kind::Api];
                let kind = kinds[(*k as usize) % kinds.len()];
                ctx.eval();
                ctx.check_case("libfuzzer", check_string(kind, s), || case_json(kind, s));
                return;
            }
        }
        ctx.inconclusive(format!("libFuzzer reported a failure that could not be reconstructed: {line}"));
        return;
    }
    if !out.status.success() {
        ctx.inconclusive(format!("cargo fuzz run failed: {}", stderr.lines().rev().take(8).collect::<Vec<_>>().join(" | ")));
        return;
    }
    let stat = |name: &str| stderr.lines().find_map(|l| l.strip_prefix(&format!("stat::{name}:")).map(|v| v.trim().parse::<u64>().unwrap_or(0))).unwrap_or(0);
    let executed = stat("number_of_executed_units");
    ctx.eval_n(executed);
    ctx.class_n("libfuzzer-executions", executed);
    let cov = stderr.lines().rev().find_map(|l| l.split("cov: ").nth(1).and_then(|r| r.split_whitespace().next()).map(String::from)).unwrap_or_default();
    ctx.extra("libfuzzer", json!({"target": "fuzz/fuzz_targets/c09_grammar.rs", "executed_units": executed, "final_cov_edges": cov, "new_units_added": stat("new_units_added"), "seed": (ctx.seed % 0xffff_fffe) + 1, "max_len": 40}));
}

pub fn replay(ctx: &Ctx, _sub: &str, case: &Value) {
    if let Some(t) = case.get("triple") {
        let p: Vec<u64> = t.as_array().unwrap().iter().map(|x| x.as_str().unwrap().parse().unwrap()).collect();
        let v = BuildpackVersion::new(p[0], p[1], p[2]);
        let back = BuildpackVersion::try_from(v.to_string()).ok();
        ctx.eval();
        let r = if back.as_ref() == Some(&v) { Ok(()) } else { Err(Fail::new("C09:BuildpackVersion:parse-not-inverse-of-display", format!("{v:?}"))) };
        ctx.check_case("replay", r, || case.clone());
        return;
    }
    let k = Kind::from_name(case["kind"].as_str().unwrap());
    let s = case["s"].as_str().unwrap().to_string();
    ctx.eval();
    if case.get("path").and_then(Value::as_str) == Some("macro") {
        match macro_verdicts(&[(k, s.clone())]) {
            Err(e) => ctx.inconclusive(e),
            Ok(v) => {
                let ok = v[0];
                let r = match recognise(k, &s) {
                    Some(w) if w != ok => Err(Fail::new(format!("C09:{}:macro-disagrees-with-grammar", k.name()), format!("{s:?} macro accepted={ok}"))),
                    _ => Ok(()),
                };
                ctx.check_case("macro", r, || case.clone());
            }
        }
    }
    ctx.check_case("replay", check_string(k, &s), || case.clone());
}
