//! C15 — `cargo libcnb package` writes complete buildpack directories, also over stale output.

use crate::core::{Check, Ctx, Fail, Scratch, hash_of, ncpu, par_map, pick_idx, verif_root};
use crate::fsutil::{self, Kind, Snapshot};
use crate::layermodel::read_toml_independent;
use crate::tv::TV;
use proptest::prelude::*;
use serde_json::{Value, json};
use std::collections::{BTreeMap, BTreeSet};
use std::path::{Path, PathBuf};

const TRIPLE: &str = "x86_64-unknown-linux-gnu";

#[derive(Clone, Debug)]
pub struct RustBp {
    id: String,
    pkg: String,
    extra_bins: Vec<String>,
    dir: String,
}

#[derive(Clone, Debug, PartialEq)]
pub enum CDep {
    Libcnb(usize), // index into all nodes (rust bps first, then composites with smaller index)
    RelPath(String),
    Docker(String),
}

#[derive(Clone, Debug)]
pub struct Composite {
    id: String,
    dir: String,
    deps: Vec<CDep>,
}

#[derive(Clone, Debug)]
pub struct Workspace {
    rust: Vec<RustBp>,
    composites: Vec<Composite>,
    others: usize,
    /// the last composite's directory is a symbolic link to a directory outside the workspace
    linked: bool,
}

#[derive(Clone, Debug, PartialEq)]
pub enum Cwd {
    Root,
    Node(usize),
    Elsewhere,
}

#[derive(Clone, Debug, PartialEq)]
pub enum Seed {
    Clean,
    Foreign,
    Truncated(u16),
    StaleRevision,
    /// a complete earlier output whose descriptors are current but whose binaries are old, plus a leftover file
    StaleBinary,
}

#[derive(Clone, Debug)]
pub struct Invocation {
    cwd: Cwd,
    release: bool,
    package_dir: u8, // 0 default, 1 relative custom, 2 absolute custom
    seed: Seed,
}

fn workspace_strategy() -> impl Strategy<Value = Workspace> {
    (1usize..4, proptest::collection::vec(0usize..3, 4), prop_oneof![1 => Just(0usize), 5 => 1usize..4], proptest::collection::vec(proptest::collection::vec((any::<u16>(), 0u8..4), 0..5), 3), 0usize..3, proptest::bool::weighted(0.3)).prop_map(|(nrust, extra, ncomp, depspec, others, linked)| {
        let rust: Vec<RustBp> = (0..nrust)
            .map(|i| RustBp {
                // the third id has two slashes and the first id as a prefix: "acme/rust-0" / "acme/rust-0/extra"
                id: if i == 2 { "acme/rust-0/extra".to_string() } else if i % 2 == 0 { format!("acme/rust-{i}") } else { format!("rust{i}") },
                pkg: format!("bp-crate-{i}"),
                extra_bins: (0..extra[i]).map(|k| format!("helper_{i}_{k}")).collect(),
                dir: if i % 2 == 0 { format!("buildpacks/rust-{i}") } else { format!("nested/deeper/rust-{i}") },
            })
            .collect();
        // every other workspace with >= 2 crates and a composite keeps the second crate INSIDE the first composite's
        // directory (a meta-buildpack with its components in a sub-directory) and makes it one of its dependencies
        let nested = linked == (nrust % 2 == 0) && nrust >= 2 && ncomp >= 1;
        let mut rust = rust;
        if nested {
            rust[1].dir = "meta/composite-0/components/rust-1".to_string();
        }
        let composites: Vec<Composite> = (0..ncomp.min(3))
            .map(|c| {
                let avail = nrust + c;
                let mut spec = depspec[c].clone();
                // the first composite always has at least one libcnb: dependency (the interesting class)
                if c == 0 && !spec.iter().any(|(_, k)| *k <= 1) {
                    spec.insert(0, (7, 0));
                }
                let mut deps: Vec<CDep> = spec
                    .iter()
                    .map(|(r, kind)| match kind {
                        0 | 1 => CDep::Libcnb(pick_idx(*r, avail)),
                        2 => CDep::RelPath("../shell-bp-0".to_string()),
                        _ => CDep::Docker("docker://docker.io/heroku/procfile-cnb:2.0.0".to_string()),
                    })
                    .collect();
                if nested && c == 0 && !deps.contains(&CDep::Libcnb(1)) {
                    deps.push(CDep::Libcnb(1));
                }
                // in some workspaces the LAST composite is the workspace root itself (a meta-buildpack repository: its
                // buildpack.toml sits next to the workspace's Cargo.toml) and depends on the first composite
                let at_root = !linked && ncomp.min(3) >= 2 && c + 1 == ncomp.min(3) && (nrust + others) % 2 == 0;
                if at_root && !deps.contains(&CDep::Libcnb(nrust)) {
                    deps.push(CDep::Libcnb(nrust));
                }
                // the second composite's id differs from the first Rust buildpack's only in letter case
                Composite { id: if c == 1 { "acme/Rust-0".to_string() } else { format!("acme/meta-{c}") }, dir: if at_root { ".".to_string() } else { format!("meta/composite-{c}") }, deps }
            })
            .collect();
        Workspace { rust, composites, others, linked }
    })
}

fn invocation_strategy(nnodes: usize) -> impl Strategy<Value = Invocation> {
    (
        prop_oneof![3 => Just(Cwd::Root), 4 => (0..nnodes.max(1)).prop_map(Cwd::Node), 1 => Just(Cwd::Elsewhere)],
        proptest::bool::weighted(0.2),
        prop_oneof![3 => Just(0u8), 1 => Just(1u8), 1 => Just(2u8)],
        prop_oneof![2 => Just(Seed::Clean), 2 => Just(Seed::Foreign), 3 => any::<u16>().prop_map(Seed::Truncated), 2 => Just(Seed::StaleRevision), 2 => Just(Seed::StaleBinary)],
    )
        .prop_map(|(cwd, release, package_dir, seed)| Invocation { cwd, release, package_dir, seed })
}

fn ws_json(w: &Workspace) -> Value {
    json!({
        "rust": w.rust.iter().map(|r| json!({"id": r.id, "pkg": r.pkg, "extra_bins": r.extra_bins, "dir": r.dir})).collect::<Vec<_>>(),
        "composites": w.composites.iter().map(|c| json!({"id": c.id, "dir": c.dir, "deps": c.deps.iter().map(|d| match d { CDep::Libcnb(i) => json!({"libcnb": i}), CDep::RelPath(p) => json!({"rel": p}), CDep::Docker(u) => json!({"docker": u}) }).collect::<Vec<_>>()})).collect::<Vec<_>>(),
        "others": w.others,
        "linked": w.linked,
    })
}
fn ws_from_json(v: &Value) -> Workspace {
    Workspace {
        rust: v["rust"].as_array().unwrap().iter().map(|r| RustBp { id: r["id"].as_str().unwrap().into(), pkg: r["pkg"].as_str().unwrap().into(), extra_bins: r["extra_bins"].as_array().unwrap().iter().map(|s| s.as_str().unwrap().to_string()).collect(), dir: r["dir"].as_str().unwrap().into() }).collect(),
        composites: v["composites"].as_array().unwrap().iter().map(|c| Composite {
            id: c["id"].as_str().unwrap().into(),
            dir: c["dir"].as_str().unwrap().into(),
            deps: c["deps"].as_array().unwrap().iter().map(|d| if let Some(i) = d.get("libcnb") { CDep::Libcnb(i.as_u64().unwrap() as usize) } else if let Some(p) = d.get("rel") { CDep::RelPath(p.as_str().unwrap().into()) } else { CDep::Docker(d["docker"].as_str().unwrap().into()) }).collect(),
        }).collect(),
        others: v["others"].as_u64().unwrap() as usize,
        linked: v["linked"].as_bool().unwrap_or(false),
    }
}
fn inv_json(i: &Invocation) -> Value {
    json!({"cwd": match &i.cwd { Cwd::Root => json!("root"), Cwd::Node(n) => json!({"node": n}), Cwd::Elsewhere => json!("elsewhere") }, "release": i.release, "package_dir": i.package_dir,
        "seed": match &i.seed { Seed::Clean => json!("clean"), Seed::Foreign => json!("foreign"), Seed::Truncated(n) => json!({"truncated": n}), Seed::StaleRevision => json!("stale-revision"), Seed::StaleBinary => json!("stale-binary") }})
}
fn inv_from_json(v: &Value) -> Invocation {
    Invocation {
        cwd: if v["cwd"] == "root" { Cwd::Root } else if v["cwd"] == "elsewhere" { Cwd::Elsewhere } else { Cwd::Node(v["cwd"]["node"].as_u64().unwrap() as usize) },
        release: v["release"].as_bool().unwrap(),
        package_dir: v["package_dir"].as_u64().unwrap() as u8,
        seed: if v["seed"] == "clean" { Seed::Clean } else if v["seed"] == "foreign" { Seed::Foreign } else if v["seed"] == "stale-revision" { Seed::StaleRevision } else if v["seed"] == "stale-binary" { Seed::StaleBinary } else { Seed::Truncated(v["seed"]["truncated"].as_u64().unwrap() as u16) },
    }
}

impl Workspace {
    fn nnodes(&self) -> usize {
        self.rust.len() + self.composites.len()
    }
    fn node_id(&self, i: usize) -> &str {
        if i < self.rust.len() { &self.rust[i].id } else { &self.composites[i - self.rust.len()].id }
    }
    fn node_dir(&self, i: usize) -> &str {
        if i < self.rust.len() { &self.rust[i].dir } else { &self.composites[i - self.rust.len()].dir }
    }
    fn deps_of(&self, i: usize) -> Vec<usize> {
        if i < self.rust.len() {
            vec![]
        } else {
            self.composites[i - self.rust.len()].deps.iter().filter_map(|d| if let CDep::Libcnb(j) = d { Some(*j) } else { None }).collect()
        }
    }
    fn closure(&self, roots: &[usize]) -> BTreeSet<usize> {
        let mut seen = BTreeSet::new();
        let mut st = roots.to_vec();
        while let Some(u) = st.pop() {
            if seen.insert(u) {
                st.extend(self.deps_of(u));
            }
        }
        seen
    }
}

fn write_workspace(root: &Path, w: &Workspace, revision: u32) {
    std::fs::create_dir_all(root).unwrap();
    let members: Vec<String> = w.rust.iter().map(|r| format!("\"{}\"", r.dir)).collect();
    std::fs::write(root.join("Cargo.toml"), format!("[workspace]\nresolver = \"2\"\nmembers = [{}]\n", members.join(", "))).unwrap();
    std::fs::write(root.join(".ignore"), "packaged/\ntarget/\nout-dir/\nabs-out/\n").unwrap();
    for r in &w.rust {
        let d = root.join(&r.dir);
        std::fs::create_dir_all(d.join("src/bin")).unwrap();
        std::fs::write(d.join("Cargo.toml"), format!("[package]\nname = \"{}\"\nversion = \"0.1.0\"\nedition = \"2021\"\n", r.pkg)).unwrap();
        std::fs::write(d.join("src/main.rs"), format!("fn main() {{ println!(\"main of {} revision {revision}\"); }}\n", r.pkg)).unwrap();
        for b in &r.extra_bins {
            std::fs::write(d.join(format!("src/bin/{b}.rs")), format!("fn main() {{ println!(\"extra {b} of {} revision {revision}\"); }}\n", r.pkg)).unwrap();
        }
        std::fs::write(d.join("buildpack.toml"), format!("api = \"0.10\"\n\n[buildpack]\nid = \"{}\"\nversion = \"0.{revision}.0\"\n# a comment that must survive byte for byte\n\n[[targets]]\nos = \"linux\"\n", r.id)).unwrap();
    }
    for (ci, c) in w.composites.iter().enumerate() {
        let d = root.join(&c.dir);
        if w.linked && ci + 1 == w.composites.len() {
            // linked into the workspace from elsewhere
            let real = root.parent().unwrap().join(format!("{}-external", root.file_name().unwrap().to_string_lossy())).join(format!("composite-{ci}"));
            std::fs::create_dir_all(&real).unwrap();
            std::fs::create_dir_all(d.parent().unwrap()).unwrap();
            if std::fs::symlink_metadata(&d).is_err() {
                std::os::unix::fs::symlink(&real, &d).unwrap();
            }
        }
        std::fs::create_dir_all(&d).unwrap();
        std::fs::write(d.join("buildpack.toml"), format!("api = \"0.10\"\n\n[buildpack]\nid = \"{}\"\nversion = \"1.{revision}.{ci}\"\n\n[[order]]\n[[order.group]]\nid = \"x/y\"\nversion = \"1.0.0\"\n", c.id)).unwrap();
        let mut p = String::from("[buildpack]\nuri = \".\"\n");
        for dep in &c.deps {
            let uri = match dep {
                CDep::Libcnb(i) => format!("libcnb:{}", w.node_id(*i)),
                CDep::RelPath(r) => r.clone(),
                CDep::Docker(u) => u.clone(),
            };
            p.push_str(&format!("\n[[dependencies]]\nuri = \"{uri}\"\n"));
        }
        std::fs::write(d.join("package.toml"), p).unwrap();
    }
    for o in 0..w.others {
        let d = root.join(format!("meta/shell-bp-{o}"));
        std::fs::create_dir_all(d.join("bin")).unwrap();
        std::fs::write(d.join("buildpack.toml"), format!("api = \"0.10\"\n\n[buildpack]\nid = \"acme/shell-{o}\"\nversion = \"1.0.0\"\n")).unwrap();
        std::fs::write(d.join("bin/build"), "#!/bin/sh\n").unwrap();
    }
    std::fs::create_dir_all(root.join("docs/not a buildpack")).unwrap();
}

fn cargo_libcnb() -> PathBuf {
    verif_root().join("harness/target/repo-bins/debug/cargo-libcnb")
}

fn which_cargo() -> PathBuf {
    for d in std::env::var("PATH").unwrap_or_default().split(':') {
        let p = Path::new(d).join("cargo");
        if p.is_file() {
            return p;
        }
    }
    PathBuf::from("cargo")
}

struct RunOut {
    code: Option<i32>,
    stdout: String,
    stderr: String,
}

fn package_dir_of(root: &Path, inv: &Invocation) -> PathBuf {
    match inv.package_dir {
        0 => root.join("packaged"),
        1 => root.join("out-dir"),
        _ => root.join("abs-out"),
    }
}

fn invoke(root: &Path, w: &Workspace, inv: &Invocation) -> RunOut {
    let cwd = match &inv.cwd {
        Cwd::Root => root.to_path_buf(),
        Cwd::Node(i) => root.join(w.node_dir(*i)),
        Cwd::Elsewhere => root.join("docs/not a buildpack"),
    };
    let mut cmd = std::process::Command::new(cargo_libcnb());
    cmd.args(["libcnb", "package", "--target", TRIPLE, "--no-cross-compile-assistance"]);
    if inv.release {
        cmd.arg("--release");
    }
    match inv.package_dir {
        1 => {
            // relative to the invocation directory
            let rel = pathdiff(&root.join("out-dir"), &cwd);
            cmd.arg("--package-dir").arg(rel);
        }
        2 => {
            cmd.arg("--package-dir").arg(root.join("abs-out"));
        }
        _ => {}
    }
    cmd.current_dir(&cwd).env("CARGO", which_cargo()).env("CARGO_NET_OFFLINE", "true").env_remove("CI").env("CARGO_TARGET_DIR", root.join("target")).stdin(std::process::Stdio::null());
    let out = cmd.output().expect("harness: spawn cargo-libcnb");
    RunOut { code: out.status.code(), stdout: String::from_utf8_lossy(&out.stdout).to_string(), stderr: String::from_utf8_lossy(&out.stderr).to_string() }
}

fn pathdiff(target: &Path, base: &Path) -> PathBuf {
    let t: Vec<_> = target.components().collect();
    let b: Vec<_> = base.components().collect();
    let common = t.iter().zip(&b).take_while(|(x, y)| x == y).count();
    let mut out = PathBuf::new();
    for _ in common..b.len() {
        out.push("..");
    }
    for c in &t[common..] {
        out.push(c.as_os_str());
    }
    out
}

fn out_dir_of(root: &Path, inv: &Invocation, id: &str) -> PathBuf {
    package_dir_of(root, inv).join(TRIPLE).join(if inv.release { "release" } else { "debug" }).join(id.replace('/', "_"))
}

fn ref_normalise(base_dir: &str, rel: &str) -> String {
    let joined = format!("{base_dir}/{rel}");
    let mut stack: Vec<&str> = vec![];
    for seg in joined.split('/') {
        match seg {
            "" | "." => {}
            ".." => {
                stack.pop();
            }
            s => stack.push(s),
        }
    }
    format!("/{}", stack.join("/"))
}

/// full check of one packaged buildpack directory against the sources and the build output
fn check_packaged(root: &Path, w: &Workspace, inv: &Invocation, node: usize) -> Check {
    let id = w.node_id(node);
    let out = out_dir_of(root, inv, id);
    ensure!(out.is_dir(), "C15:output-dir-missing", "{} not written", out.display());
    let src = root.join(w.node_dir(node));
    let want_bp = std::fs::read(src.join("buildpack.toml")).unwrap();
    let got_bp = std::fs::read(out.join("buildpack.toml")).map_err(|e| Fail::new("C15:buildpack-toml-missing", format!("{id}: {e}")))?;
    ensure!(got_bp == want_bp, "C15:buildpack-toml-not-identical", "{id}: buildpack.toml differs from the source file");
    let snap = fsutil::snapshot(&out);
    let mut expected: BTreeSet<String> = ["", "buildpack.toml", "package.toml"].iter().map(|s| s.to_string()).collect();
    let profile = if inv.release { "release" } else { "debug" };
    if node < w.rust.len() {
        let r = &w.rust[node];
        let tdir = root.join("target").join(TRIPLE).join(profile);
        let main = std::fs::read(tdir.join(&r.pkg)).map_err(|e| Fail::new("harness:target-binary", format!("{}: {e}", tdir.join(&r.pkg).display())))?;
        let got = std::fs::read(out.join("bin/build")).map_err(|e| Fail::new("C15:bin-build-missing", format!("{id}: {e}")))?;
        ensure!(got == main, "C15:bin-build-not-the-main-binary", "{id}: bin/build is not byte-identical to target/{TRIPLE}/{profile}/{}", r.pkg);
        let md = std::fs::symlink_metadata(out.join("bin/detect")).map_err(|e| Fail::new("C15:bin-detect-missing", format!("{id}: {e}")))?;
        // "bin/detect as a link to it": a symbolic link that resolves to bin/build (however spelled), or a hard link
        let resolves = std::fs::canonicalize(out.join("bin/detect")).ok() == std::fs::canonicalize(out.join("bin/build")).ok() && md.file_type().is_symlink();
        let hard = {
            use std::os::unix::fs::MetadataExt;
            let b = std::fs::symlink_metadata(out.join("bin/build")).map_err(|e| Fail::new("C15:bin-build-missing", format!("{id}: {e}")))?;
            md.file_type().is_file() && md.ino() == b.ino() && md.dev() == b.dev()
        };
        ensure!(resolves || hard, "C15:bin-detect-not-a-link-to-build", "{id}");
        expected.extend(["bin", "bin/build", "bin/detect"].iter().map(|s| s.to_string()));
        if !r.extra_bins.is_empty() {
            expected.insert(".libcnb-cargo".into());
            expected.insert(".libcnb-cargo/additional-bin".into());
        }
        for b in &r.extra_bins {
            let want = std::fs::read(tdir.join(b)).map_err(|e| Fail::new("harness:target-binary", format!("{b}: {e}")))?;
            let got = std::fs::read(out.join(".libcnb-cargo/additional-bin").join(b)).map_err(|e| Fail::new("C15:additional-binary-missing", format!("{id}: {b}: {e}")))?;
            ensure!(got == want, "C15:additional-binary-differs", "{id}: .libcnb-cargo/additional-bin/{b} is not the compiled target {b}");
            ensure!(got != main, "harness:binaries-indistinguishable", "{b}");
            expected.insert(format!(".libcnb-cargo/additional-bin/{b}"));
        }
        // a package descriptor for a single buildpack: buildpack.uri = ".", no dependencies (decoded, not byte-compared)
        let pkg = std::fs::read_to_string(out.join("package.toml")).map_err(|e| Fail::new("C15:package-toml-missing", format!("{id}: {e}")))?;
        let ptv = read_toml_independent(&pkg).map_err(|e| Fail::new("C15:package-toml-invalid", e))?;
        let uri_ok = ptv.get("buildpack").and_then(|b| b.get("uri")).and_then(TV::as_str) == Some(".");
        let no_deps = ptv.get("dependencies").and_then(TV::as_array).map(|a| a.is_empty()).unwrap_or(true);
        ensure!(uri_ok && no_deps, "C15:package-toml-of-libcnb-buildpack", "{id}: {pkg:?}");
    } else {
        let c = &w.composites[node - w.rust.len()];
        let text = std::fs::read_to_string(out.join("package.toml")).map_err(|e| Fail::new("C15:package-toml-missing", format!("{id}: {e}")))?;
        let tv = read_toml_independent(&text).map_err(|e| Fail::new("C15:package-toml-invalid", e))?;
        ensure!(tv.get("buildpack").and_then(|b| b.get("uri")).and_then(TV::as_str) == Some("."), "C15:composite-buildpack-uri", "{text}");
        let empty = vec![];
        let deps = tv.get("dependencies").and_then(TV::as_array).unwrap_or(&empty);
        ensure!(deps.len() == c.deps.len(), "C15:composite-dependency-count", "{id}: {} written, {} declared\n{text}", deps.len(), c.deps.len());
        for (d, o) in c.deps.iter().zip(deps) {
            let got = o.get("uri").and_then(TV::as_str).unwrap_or("<none>");
            let want = match d {
                CDep::Libcnb(j) => out_dir_of(root, inv, w.node_id(*j)).to_string_lossy().to_string(),
                CDep::RelPath(r) => ref_normalise(&src.to_string_lossy(), r),
                CDep::Docker(u) => u.clone(),
            };
            ensure!(got == want, "C15:composite-dependency-wrong", "{id}: dependency written as {got:?}, expected {want:?}");
        }
    }
    // the listed entries and nothing stale; directories that are empty do not count as "something else"
    let got_entries: BTreeSet<String> = snap
        .iter()
        .filter(|(k, e)| {
            let name = fsutil::show_path(k);
            expected.contains(&name) || !(matches!(e.kind, Kind::Dir) && !snap.keys().any(|o| o.len() > k.len() && o.starts_with(k) && o[k.len()] == b'/'))
        })
        .map(|(k, _)| fsutil::show_path(k))
        .collect();
    if got_entries != expected {
        let extra: Vec<&String> = got_entries.difference(&expected).collect();
        let missing: Vec<&String> = expected.difference(&got_entries).collect();
        let sig = if !extra.is_empty() { "C15:stale-or-unexpected-entries-in-output" } else { "C15:output-entries-missing" };
        return Err(Fail::new(sig, format!("{id}: unexpected {extra:?}, missing {missing:?}")));
    }
    Ok(())
}

fn seed_output(root: &Path, w: &Workspace, inv: &Invocation, nodes: &BTreeSet<usize>, clean_snaps: &BTreeMap<String, Snapshot>) {
    for n in nodes {
        let id = w.node_id(*n);
        let out = out_dir_of(root, inv, id);
        let _ = fsutil::force_remove(&out);
        match &inv.seed {
            Seed::Clean => {}
            Seed::Foreign => {
                std::fs::create_dir_all(out.join("bin/old")).unwrap();
                std::fs::write(out.join("FOREIGN"), b"left by someone else").unwrap();
                std::fs::write(out.join("bin/old/tool"), b"x").unwrap();
                std::os::unix::fs::symlink("/nonexistent", out.join("dangling")).unwrap();
                std::fs::create_dir_all(out.join(".libcnb-cargo/additional-bin")).unwrap();
                std::fs::write(out.join(".libcnb-cargo/additional-bin/stale_helper"), b"stale binary").unwrap();
            }
            Seed::Truncated(k) => {
                // an interrupted earlier run: a real earlier output with a subset of its entries deleted or emptied
                if let Some(s) = clean_snaps.get(id) {
                    std::fs::create_dir_all(&out).unwrap();
                    for (i, (p, e)) in s.iter().enumerate() {
                        if p.is_empty() {
                            continue;
                        }
                        let drop = (hash_of(&(k, i)) % 3) as u8;
                        let path = out.join(fsutil::path_from_bytes(p));
                        match e.kind {
                            Kind::Dir => {
                                let _ = std::fs::create_dir_all(&path);
                            }
                            Kind::File if drop == 0 => {}
                            Kind::File => {
                                if let Some(par) = path.parent() {
                                    let _ = std::fs::create_dir_all(par);
                                }
                                let _ = std::fs::write(&path, if drop == 1 { &e.data[..e.data.len() / 2] } else { &e.data[..] });
                            }
                            Kind::Symlink if drop != 0 => {
                                if let Some(par) = path.parent() {
                                    let _ = std::fs::create_dir_all(par);
                                }
                                let _ = std::os::unix::fs::symlink(fsutil::path_from_bytes(&e.data), &path);
                            }
                            _ => {}
                        }
                    }
                }
            }
            Seed::StaleBinary => {
                if let Some(s) = clean_snaps.get(id) {
                    std::fs::create_dir_all(&out).unwrap();
                    for (p, e) in s.iter() {
                        if p.is_empty() {
                            continue;
                        }
                        let path = out.join(fsutil::path_from_bytes(p));
                        if let Some(par) = path.parent() {
                            let _ = std::fs::create_dir_all(par);
                        }
                        let rel = fsutil::show_path(p);
                        match e.kind {
                            Kind::Dir => {
                                let _ = std::fs::create_dir_all(&path);
                            }
                            Kind::File => {
                                let old = rel.contains("bin/") && !rel.ends_with(".toml");
                                let _ = std::fs::write(&path, if old { b"binary of an earlier revision".to_vec() } else { e.data.clone() });
                            }
                            Kind::Symlink => {
                                let _ = std::os::unix::fs::symlink(fsutil::path_from_bytes(&e.data), &path);
                            }
                            _ => {}
                        }
                    }
                    std::fs::write(out.join("left-over-from-earlier-run"), b"x").unwrap();
                }
            }
            Seed::StaleRevision => {
                // output of a different revision of the workspace: different descriptor, an extra binary that no longer exists
                std::fs::create_dir_all(out.join("bin")).unwrap();
                std::fs::create_dir_all(out.join(".libcnb-cargo/additional-bin")).unwrap();
                std::fs::write(out.join("buildpack.toml"), b"api = \"0.9\"\n# old revision\n").unwrap();
                std::fs::write(out.join("package.toml"), b"[buildpack]\nuri = \"old\"\n").unwrap();
                std::fs::write(out.join("bin/build"), b"old binary").unwrap();
                std::fs::write(out.join("bin/detect"), b"a regular file where the link belongs").unwrap();
                std::fs::write(out.join(".libcnb-cargo/additional-bin/removed_in_new_revision"), b"old helper").unwrap();
            }
        }
    }
}

struct WsOutcome {
    evals: u64,
    nontrivial: Vec<u64>,
    classes: Vec<String>,
    fail: Option<(Fail, Value)>,
    inconclusive: Option<String>,
    sample: Option<Value>,
}

fn check_workspace(scratch: &Path, w: &Workspace, invs: &[Invocation], idx: usize) -> WsOutcome {
    let mut out = WsOutcome { evals: 0, nontrivial: vec![], classes: vec![], fail: None, inconclusive: None, sample: None };
    let root = scratch.join(format!("ws{idx}-{:08x}", hash_of(&ws_json(w).to_string()) as u32));
    let _ = fsutil::force_remove(&root);
    write_workspace(&root, w, 1);
    let all: Vec<usize> = (0..w.nnodes()).collect();
    let case = |inv: &Invocation| json!({"workspace": ws_json(w), "invocation": inv_json(inv)});
    let r = (|| -> Result<(), (Fail, Value)> {
        for inv in invs {
            out.evals += 1;
            // the process's working directory is physical: from inside a linked directory the workspace is not reachable
            let linked_node = if w.linked && !w.composites.is_empty() { Some(w.nnodes() - 1) } else { None };
            let inv = &match &inv.cwd {
                Cwd::Node(n) if Some(*n % w.nnodes()) == linked_node => Invocation { cwd: Cwd::Root, ..inv.clone() },
                _ => inv.clone(),
            };
            if linked_node.is_some() {
                out.classes.push("workspace-with-linked-buildpack-dir".into());
            }
            // a workspace root that is itself a buildpack selects that buildpack, not everything
            let root_is_buildpack = w.composites.last().map(|c| c.dir == ".").unwrap_or(false);
            if root_is_buildpack {
                out.classes.push("workspace-root-is-a-composite-buildpack".into());
            }
            let roots: Vec<usize> = match &inv.cwd {
                Cwd::Root if root_is_buildpack => vec![w.nnodes() - 1],
                Cwd::Root => all.clone(),
                Cwd::Node(n) => vec![*n % w.nnodes()],
                Cwd::Elsewhere => vec![],
            };
            let inv = Invocation { cwd: match &inv.cwd { Cwd::Node(n) => Cwd::Node(*n % w.nnodes()), c => c.clone() }, ..inv.clone() };
            let expected = w.closure(&roots);
            out.classes.push(format!("cwd:{}", match inv.cwd { Cwd::Root => "workspace-root", Cwd::Node(n) if n < w.rust.len() => "libcnb.rs-buildpack", Cwd::Node(_) => "composite-buildpack", Cwd::Elsewhere => "elsewhere" }));
            out.classes.push(format!("seed:{}", match inv.seed { Seed::Clean => "clean", Seed::Foreign => "foreign", Seed::Truncated(_) => "truncated-earlier-output", Seed::StaleRevision => "stale-revision", Seed::StaleBinary => "stale-binaries-current-descriptors" }));
            if inv.release {
                out.classes.push("profile:release".into());
            }
            if inv.cwd == Cwd::Elsewhere {
                let before = fsutil::snapshot(&package_dir_of(&root, &inv));
                let o = invoke(&root, w, &inv);
                let after = fsutil::snapshot(&package_dir_of(&root, &inv));
                // the statement quantifies over the workspace root and buildpack directories only: what happens elsewhere is
                // not judged beyond "the tool is not killed by a signal"
                let _ = (&before, &after);
                let chk: Check = if o.code.is_none() { Err(Fail::new("C15:killed-by-signal", o.stderr.clone())) } else { Ok(()) };
                chk.map_err(|f| (f, case(&inv)))?;
                continue;
            }
            // clean reference for this (selection, profile, package dir)
            let clean = Invocation { seed: Seed::Clean, ..inv.clone() };
            seed_output(&root, w, &clean, &expected, &BTreeMap::new());
            let o = invoke(&root, w, &clean);
            if o.code != Some(0) {
                return Err((Fail::new("C15:packaging-failed", format!("exit {:?}\n{}", o.code, o.stderr.chars().rev().take(600).collect::<String>().chars().rev().collect::<String>())), case(&clean)));
            }
            let validate = |o: &RunOut, inv: &Invocation| -> Check {
                for n in &expected {
                    check_packaged(&root, w, inv, *n)?;
                }
                // stdout: exactly the selected buildpacks' output directories
                let mut got: Vec<String> = o.stdout.lines().map(String::from).collect();
                got.sort();
                let mut want: Vec<String> = roots.iter().map(|n| out_dir_of(&root, inv, w.node_id(*n)).to_string_lossy().to_string()).collect();
                want.sort();
                want.dedup();
                ensure!(got == want, "C15:stdout-lines", "stdout {got:?}, expected {want:?}");
                // no other output directory for this profile
                let prof = package_dir_of(&root, inv).join(TRIPLE).join(if inv.release { "release" } else { "debug" });
                let dirs: BTreeSet<String> = std::fs::read_dir(&prof).map(|rd| rd.flatten().map(|e| e.file_name().to_string_lossy().to_string()).collect()).unwrap_or_default();
                let want_dirs: BTreeSet<String> = expected.iter().map(|n| w.node_id(*n).replace('/', "_")).collect();
                let unexpected: Vec<&String> = dirs.difference(&want_dirs).collect();
                ensure!(unexpected.is_empty() || inv.cwd != Cwd::Root || root_is_buildpack, "C15:unexpected-output-directory", "{unexpected:?}");
                Ok(())
            };
            validate(&o, &clean).map_err(|f| (f, case(&clean)))?;
            let clean_snaps: BTreeMap<String, Snapshot> = expected.iter().map(|n| (w.node_id(*n).to_string(), fsutil::snapshot(&out_dir_of(&root, &clean, w.node_id(*n))))).collect();
            if inv.seed == Seed::Clean {
                continue;
            }
            // the same invocation over a pre-seeded output directory must give the same result
            out.evals += 1;
            seed_output(&root, w, &inv, &expected, &clean_snaps);
            let o2 = invoke(&root, w, &inv);
            if o2.code != Some(0) {
                return Err((Fail::new("C15:packaging-over-stale-output-failed", format!("exit {:?}\n{}", o2.code, o2.stderr.chars().rev().take(600).collect::<String>().chars().rev().collect::<String>())), case(&inv)));
            }
            validate(&o2, &inv).map_err(|f| (f, case(&inv)))?;
            for n in &expected {
                let id = w.node_id(*n);
                let now = fsutil::snapshot(&out_dir_of(&root, &inv, id));
                let d = fsutil::diff(&clean_snaps[id], &now, 5);
                if !d.is_empty() {
                    return Err((Fail::new("C15:result-depends-on-earlier-output", format!("{id}: {d:?}")), case(&inv)));
                }
            }
            let has_composite_with_libcnb_dep = expected.iter().any(|n| *n >= w.rust.len() && !w.deps_of(*n).is_empty());
            if has_composite_with_libcnb_dep {
                out.nontrivial.push(hash_of(&case(&inv).to_string()));
                if out.sample.is_none() {
                    out.sample = Some(json!({"case": case(&inv), "stdout": o2.stdout.lines().map(|l| l.replace(&root.to_string_lossy().to_string(), "<ws>")).collect::<Vec<_>>()}));
                }
            }
        }
        Ok(())
    })();
    if let Err((f, c)) = r {
        if f.sig.starts_with("harness:") {
            out.inconclusive = Some(f.msg);
        } else {
            out.fail = Some((f, c));
        }
    }
    let _ = fsutil::force_remove(&root);
    out
}

pub fn run(ctx: &Ctx) {
    ctx.set_rule("generated Cargo workspaces (1-3 dependency-free libcnb.rs buildpack crates with 1-3 binary targets whose main functions print distinct tokens, 0-3 composite buildpacks whose package.toml mixes libcnb:, relative-path and docker dependencies forming a DAG, 0-2 non-libcnb buildpack directories, ids with one or two '/' where one id is a '/'-prefix of another and two ids differ only in letter case, nested locations (also a crate buildpack inside the directory of the composite that depends on it), in some workspaces the last composite being the workspace root itself (next to the workspace's Cargo.toml, depending on the first composite), in 3 of 10 workspaces one composite's directory being a symbolic link to a directory outside the workspace, an .ignore file for output and target directories) packaged by the REAL cargo-libcnb binary built from /repo (--target x86_64-unknown-linux-gnu --no-cross-compile-assistance): from the workspace root, from each buildpack directory and from an unrelated directory; dev/--release; default, relative and absolute --package-dir; each over a clean output directory and over output directories pre-seeded with foreign files/dirs/symlinks, with a truncated earlier output (interrupted-run model: random subset of a real output deleted or cut in half) with an output of a different workspace revision, or with a complete earlier output whose descriptors are current but whose binaries are old (always tried once from a composite's own directory). Oracle: exit 0; for exactly the selected buildpacks and their transitive libcnb: dependencies a directory with byte-identical buildpack.toml, bin/build byte-identical to the compiled main target, bin/detect a symbolic link resolving to bin/build (or a hard link to it), every extra binary under .libcnb-cargo/additional-bin/<target name>, package.toml (decoded: uri '.' and no dependencies for libcnb.rs buildpacks; normalised descriptor decoded with Python tomllib for composites) and no other entry; stdout lines = the selected buildpacks' output directories; snapshot after a pre-seeded run == snapshot of the clean run; no entry besides the listed ones except empty directories; a run from an unrelated directory is executed but not judged. Non-trivial: selection contains a composite with >= 1 libcnb: dependency AND the run starts from a pre-seeded output directory; distinct = hash of (workspace, invocation).");
    ctx.assume("the musl target is not installed in this sandbox: the host gnu triple is passed explicitly, cross-compile assistance is not exercised");
    if !cargo_libcnb().exists() {
        ctx.inconclusive("cargo-libcnb has not been built (run ./setup.sh)");
        return;
    }
    let scratch = Scratch::new("c15");
    let nws = ctx.tier.pick(10, 150);
    let wss = ctx.generate("workspaces", &workspace_strategy(), nws);
    let mut jobs = vec![];
    for (i, w) in wss.into_iter().enumerate() {
        let mut invs = ctx.generate(&format!("invocations-{i}"), &invocation_strategy(w.nnodes()), ctx.tier.pick(5, 8));
        // always: the whole workspace from the root over a truncated earlier output, and one unrelated directory
        invs.insert(0, Invocation { cwd: Cwd::Root, release: false, package_dir: 0, seed: Seed::Truncated(i as u16) });
        invs.push(Invocation { cwd: Cwd::Elsewhere, release: false, package_dir: 0, seed: Seed::Clean });
        if !w.composites.is_empty() {
            // from a composite's own directory, over a complete earlier output with current descriptors and old binaries
            invs.push(Invocation { cwd: Cwd::Node(w.rust.len()), release: false, package_dir: 0, seed: Seed::StaleBinary });
        }
        jobs.push((i, w, invs));
    }
    for (_p, v) in ctx.regress_files() {
        let w = ws_from_json(&v["case"]["workspace"]);
        let inv = inv_from_json(&v["case"]["invocation"]);
        jobs.push((900 + jobs.len(), w, vec![inv]));
    }
    let outs = par_map(&jobs, (ncpu() / 3).max(2), |(i, w, invs)| check_workspace(&scratch.path, w, invs, *i));
    for o in outs {
        ctx.eval_n(o.evals);
        ctx.class("workspace");
        for c in &o.classes {
            ctx.class(c);
        }
        for h in o.nontrivial {
            ctx.nontrivial(h);
        }
        if let Some(s) = o.sample {
            ctx.sample(3, || s);
        }
        if let Some(i) = o.inconclusive {
            ctx.inconclusive(i);
        }
        if let Some((f, c)) = o.fail {
            ctx.check_case("package", Err(f), || c);
        }
    }
}

pub fn replay(ctx: &Ctx, _sub: &str, case: &Value) {
    let scratch = Scratch::new("c15r");
    let w = ws_from_json(&case["workspace"]);
    let inv = inv_from_json(&case["invocation"]);
    let o = check_workspace(&scratch.path, &w, &[inv], 0);
    ctx.eval_n(o.evals);
    if let Some(i) = o.inconclusive {
        ctx.inconclusive(i);
    }
    if let Some((f, c)) = o.fail {
        ctx.check_case("package", Err(f), || c);
    }
}
