//! C07 — written TOML decodes under an independent parser to the intended spec document.

use crate::core::{Check, Ctx, Fail, Scratch, bin_dir, hash_of, pick_idx};
use crate::tv::{TV, TomlReader, key_string, meta_table, nasty_string};
use libcnb_common::toml_file::{read_toml_file, write_toml_file};
use libcnb_data::build_plan::{BuildPlanBuilder, Require};
use libcnb_data::launch::{Label, Launch, LaunchBuilder, Process, ProcessBuilder, ProcessType, Slice, WorkingDirectory};
use libcnb_data::layer_content_metadata::{LayerContentMetadata, LayerTypes};
use libcnb_data::package_descriptor::{PackageDescriptor, PackageDescriptorBuildpackReference, PackageDescriptorDependency, Platform, PlatformOs};
use libcnb_data::store::Store;
use proptest::prelude::*;
use serde::{Deserialize, Serialize};
use serde_json::{Value, json};
use std::cell::RefCell;
use std::path::PathBuf;

// ---------------- generated programs ----------------

#[derive(Clone, Debug, PartialEq)]
pub enum POp {
    Arg(String),
    Args(Vec<String>),
    Default(bool),
    WdApp,
    WdDir(String),
    /// a working directory that is not UTF-8 (legal as a path, not representable in TOML); only C07's own documents use it
    WdBytes(Vec<u8>),
}

#[derive(Clone, Debug, PartialEq)]
pub struct Proc {
    ty: String,
    command: Vec<String>,
    ops: Vec<POp>,
}

#[derive(Clone, Debug, PartialEq)]
pub enum LOp {
    Process(Proc),
    Processes(Vec<Proc>),
    Label(String, String),
    Labels(Vec<(String, String)>),
    Slice(Vec<String>),
    Slices(Vec<Vec<String>>),
}

#[derive(Clone, Debug, PartialEq)]
pub enum BOp {
    Provides(String),
    Requires(String, Option<TV>),
    /// `Require::metadata` called twice on the same requirement: the second value (possibly an empty table) is the one set
    RequiresTwice(String, TV, TV),
    Or,
}

#[derive(Clone, Debug)]
pub enum Doc {
    Launch(Vec<LOp>),
    BuildPlan(Vec<BOp>),
    /// types (None | Some(l,b,c)), metadata kind
    Lcm(Option<(bool, bool, bool)>, LcmMeta),
    Store(TV),
    ExecD(Vec<(String, String)>),
    Package { uri: String, deps: Vec<String>, windows: Option<bool> },
}

#[derive(Clone, Debug)]
pub enum LcmMeta {
    GenericNone,
    Generic(TV),
    Typed { version: String, rev: i64, tags: Vec<String>, nested: Vec<(String, String)> },
}

#[derive(Serialize, Deserialize, Debug, PartialEq, Clone)]
struct TypedMeta {
    version: String,
    rev: i64,
    tags: Vec<String>,
    nested: std::collections::BTreeMap<String, String>,
}

fn ptype() -> impl Strategy<Value = String> {
    prop_oneof![Just("web".to_string()), Just("worker".to_string()), "[A-Za-z0-9._-]{1,8}"]
}

fn svec(max: usize) -> impl Strategy<Value = Vec<String>> {
    proptest::collection::vec(nasty_string(8), 0..max)
}

fn proc_strategy() -> impl Strategy<Value = Proc> {
    let pop = prop_oneof![
        3 => nasty_string(8).prop_map(POp::Arg),
        2 => svec(3).prop_map(POp::Args),
        2 => any::<bool>().prop_map(POp::Default),
        1 => Just(POp::WdApp),
        // never the empty string: an empty working directory may legitimately be read as "the app directory"
        2 => prop_oneof![Just(".".to_string()), Just("/abs/dir".to_string()), nasty_string(8).prop_map(|s| if s.is_empty() { "rel/dir".to_string() } else { s })].prop_map(POp::WdDir),
    ];
    (ptype(), svec(4), proptest::collection::vec(pop, 0..6)).prop_map(|(ty, command, ops)| Proc { ty, command, ops })
}

pub fn launch_strategy() -> impl Strategy<Value = Vec<LOp>> {
    // label keys are drawn from a small pool half of the time so that duplicate keys (legal: labels are a list) occur
    let kv = || (prop_oneof![2 => prop_oneof![Just("io.k".to_string()), Just("k".to_string()), Just("k2".to_string())], 2 => nasty_string(8)], nasty_string(8));
    let lop = prop_oneof![
        4 => proc_strategy().prop_map(LOp::Process),
        1 => proptest::collection::vec(proc_strategy(), 0..3).prop_map(LOp::Processes),
        2 => kv().prop_map(|(k, v)| LOp::Label(k, v)),
        1 => proptest::collection::vec(kv(), 0..3).prop_map(LOp::Labels),
        2 => svec(3).prop_map(LOp::Slice),
        1 => proptest::collection::vec(svec(3), 0..3).prop_map(LOp::Slices),
    ];
    proptest::collection::vec(lop, 0..8)
}

pub fn plan_strategy() -> impl Strategy<Value = Vec<BOp>> {
    let bop = prop_oneof![
        3 => nasty_string(8).prop_map(BOp::Provides),
        3 => (nasty_string(8), proptest::option::of(meta_table(2))).prop_map(|(n, m)| BOp::Requires(n, m)),
        1 => (nasty_string(8), meta_table(2), prop_oneof![1 => Just(TV::Table(vec![])), 1 => meta_table(2)]).prop_map(|(n, a, b)| BOp::RequiresTwice(n, a, b)),
        3 => Just(BOp::Or),
    ];
    proptest::collection::vec(bop, 0..10)
}

fn doc_strategy() -> impl Strategy<Value = Doc> {
    prop_oneof![
        4 => (launch_strategy(), proptest::option::weighted(0.08, (any::<u16>(), prop_oneof![Just(vec![b'/', b's', 0xff]), Just(vec![0xc3]), Just(b"srv/caf\xe9".to_vec())]))).prop_map(|(mut ops, bad)| {
            if let Some((i, bytes)) = bad {
                let np = ops.iter().filter(|o| matches!(o, LOp::Process(_))).count();
                if np > 0 {
                    let k = pick_idx(i, np);
                    if let Some(LOp::Process(p)) = ops.iter_mut().filter(|o| matches!(o, LOp::Process(_))).nth(k) {
                        p.ops.push(POp::WdBytes(bytes));
                    }
                }
            }
            Doc::Launch(ops)
        }),
        4 => plan_strategy().prop_map(Doc::BuildPlan),
        3 => (
            proptest::option::of((any::<bool>(), any::<bool>(), any::<bool>())),
            prop_oneof![
                1 => Just(LcmMeta::GenericNone),
                3 => meta_table(3).prop_map(LcmMeta::Generic),
                2 => (nasty_string(8), any::<i64>(), svec(3), proptest::collection::vec((key_string(), nasty_string(6)), 0..3))
                    .prop_map(|(version, rev, tags, nested)| LcmMeta::Typed { version, rev, tags, nested }),
            ]
        ).prop_map(|(t, m)| Doc::Lcm(t, m)),
        2 => meta_table(3).prop_map(Doc::Store),
        2 => proptest::collection::vec(("[A-Za-z0-9_-]{1,8}", nasty_string(10)), 0..5).prop_map(Doc::ExecD),
        2 => (
            prop_oneof![Just(".".to_string()), Just("../x".to_string()), Just("docker://example.com/a:1".to_string())],
            proptest::collection::vec(prop_oneof![Just("libcnb:acme/x".to_string()), Just("../rel/path".to_string()), Just("/abs".to_string()), Just("docker://docker.io/h/e:1.2.3".to_string()), Just("https://e.com/x?y=1#z".to_string()), Just("urn:cnb:registry:a/b".to_string())], 0..5),
            proptest::option::of(any::<bool>()),
        ).prop_map(|(uri, deps, windows)| Doc::Package { uri, deps, windows }),
    ]
}

// ---------------- JSON (replay) ----------------

fn proc_json(p: &Proc) -> Value {
    json!({"type": p.ty, "command": p.command, "ops": p.ops.iter().map(|o| match o {
        POp::Arg(a) => json!({"arg": a}),
        POp::Args(a) => json!({"args": a}),
        POp::Default(b) => json!({"default": b}),
        POp::WdApp => json!({"wd_app": true}),
        POp::WdDir(d) => json!({"wd_dir": d}),
        POp::WdBytes(b) => json!({"wd_bytes": crate::core::bytes_to_json(b)}),
    }).collect::<Vec<_>>()})
}
fn strs(v: &Value) -> Vec<String> {
    v.as_array().unwrap().iter().map(|s| s.as_str().unwrap().to_string()).collect()
}
fn proc_from_json(v: &Value) -> Proc {
    Proc {
        ty: v["type"].as_str().unwrap().to_string(),
        command: strs(&v["command"]),
        ops: v["ops"].as_array().unwrap().iter().map(|o| {
            let (k, x) = o.as_object().unwrap().iter().next().unwrap();
            match k.as_str() {
                "arg" => POp::Arg(x.as_str().unwrap().to_string()),
                "args" => POp::Args(strs(x)),
                "default" => POp::Default(x.as_bool().unwrap()),
                "wd_app" => POp::WdApp,
                "wd_bytes" => POp::WdBytes(crate::core::json_to_bytes(x)),
                _ => POp::WdDir(x.as_str().unwrap().to_string()),
            }
        }).collect(),
    }
}

fn doc_json(d: &Doc) -> Value {
    match d {
        Doc::Launch(ops) => json!({"launch": ops.iter().map(|o| match o {
            LOp::Process(p) => json!({"process": proc_json(p)}),
            LOp::Processes(ps) => json!({"processes": ps.iter().map(proc_json).collect::<Vec<_>>()}),
            LOp::Label(k, v) => json!({"label": [k, v]}),
            LOp::Labels(l) => json!({"labels": l.iter().map(|(k, v)| json!([k, v])).collect::<Vec<_>>()}),
            LOp::Slice(s) => json!({"slice": s}),
            LOp::Slices(s) => json!({"slices": s}),
        }).collect::<Vec<_>>()}),
        Doc::BuildPlan(ops) => json!({"build_plan": ops.iter().map(|o| match o {
            BOp::Provides(n) => json!({"provides": n}),
            BOp::Requires(n, m) => json!({"requires": n, "metadata": m.as_ref().map(TV::to_json)}),
            BOp::RequiresTwice(n, a, b) => json!({"requires": n, "metadata": b.to_json(), "earlier_metadata": a.to_json()}),
            BOp::Or => json!("or"),
        }).collect::<Vec<_>>()}),
        Doc::Lcm(t, m) => json!({"lcm": {"types": t.map(|(l, b, c)| json!([l, b, c])), "meta": match m {
            LcmMeta::GenericNone => json!(null),
            LcmMeta::Generic(t) => json!({"generic": t.to_json()}),
            LcmMeta::Typed { version, rev, tags, nested } => json!({"typed": {"version": version, "rev": rev.to_string(), "tags": tags, "nested": nested.iter().map(|(k, v)| json!([k, v])).collect::<Vec<_>>()}}),
        }}}),
        Doc::Store(t) => json!({"store": t.to_json()}),
        Doc::ExecD(kv) => json!({"execd": kv.iter().map(|(k, v)| json!([k, v])).collect::<Vec<_>>()}),
        Doc::Package { uri, deps, windows } => json!({"package": {"uri": uri, "deps": deps, "windows": windows}}),
    }
}

fn pairs(v: &Value) -> Vec<(String, String)> {
    v.as_array().unwrap().iter().map(|kv| (kv[0].as_str().unwrap().to_string(), kv[1].as_str().unwrap().to_string())).collect()
}

fn doc_from_json(v: &Value) -> Doc {
    let (k, x) = v.as_object().unwrap().iter().next().unwrap();
    match k.as_str() {
        "launch" => Doc::Launch(x.as_array().unwrap().iter().map(|o| {
            let (k, x) = o.as_object().unwrap().iter().next().unwrap();
            match k.as_str() {
                "process" => LOp::Process(proc_from_json(x)),
                "processes" => LOp::Processes(x.as_array().unwrap().iter().map(proc_from_json).collect()),
                "label" => LOp::Label(x[0].as_str().unwrap().into(), x[1].as_str().unwrap().into()),
                "labels" => LOp::Labels(pairs(x)),
                "slice" => LOp::Slice(strs(x)),
                _ => LOp::Slices(x.as_array().unwrap().iter().map(strs).collect()),
            }
        }).collect()),
        "build_plan" => Doc::BuildPlan(x.as_array().unwrap().iter().map(|o| {
            if o == "or" {
                BOp::Or
            } else if let Some(n) = o.get("provides") {
                BOp::Provides(n.as_str().unwrap().into())
            } else if o.get("earlier_metadata").is_some() {
                BOp::RequiresTwice(o["requires"].as_str().unwrap().into(), TV::from_json(&o["earlier_metadata"]), TV::from_json(&o["metadata"]))
            } else {
                BOp::Requires(o["requires"].as_str().unwrap().into(), if o["metadata"].is_null() { None } else { Some(TV::from_json(&o["metadata"])) })
            }
        }).collect()),
        "lcm" => {
            let types = if x["types"].is_null() { None } else { Some((x["types"][0].as_bool().unwrap(), x["types"][1].as_bool().unwrap(), x["types"][2].as_bool().unwrap())) };
            let meta = if x["meta"].is_null() {
                LcmMeta::GenericNone
            } else if let Some(g) = x["meta"].get("generic") {
                LcmMeta::Generic(TV::from_json(g))
            } else {
                let t = &x["meta"]["typed"];
                LcmMeta::Typed { version: t["version"].as_str().unwrap().into(), rev: t["rev"].as_str().unwrap().parse().unwrap(), tags: strs(&t["tags"]), nested: pairs(&t["nested"]) }
            };
            Doc::Lcm(types, meta)
        }
        "store" => Doc::Store(TV::from_json(x)),
        "execd" => Doc::ExecD(pairs(x)),
        _ => Doc::Package { uri: x["uri"].as_str().unwrap().into(), deps: strs(&x["deps"]), windows: x["windows"].as_bool() },
    }
}

// ---------------- model of what the spec document must contain ----------------

#[derive(Debug, PartialEq, Clone)]
struct MProc {
    ty: String,
    command: Vec<String>,
    args: Vec<String>,
    default: bool,
    wd: Option<String>, // None = app directory
    /// the final working directory is not UTF-8: the document cannot be written
    wd_unrepresentable: bool,
}

fn model_proc(p: &Proc) -> MProc {
    let mut m = MProc { ty: p.ty.clone(), command: p.command.clone(), args: vec![], default: false, wd: None, wd_unrepresentable: false };
    for o in &p.ops {
        match o {
            POp::Arg(a) => m.args.push(a.clone()),
            POp::Args(a) => m.args.extend(a.iter().cloned()),
            POp::Default(b) => m.default = *b,
            POp::WdApp => {
                m.wd = None;
                m.wd_unrepresentable = false;
            }
            POp::WdDir(d) => {
                m.wd = Some(d.clone());
                m.wd_unrepresentable = false;
            }
            POp::WdBytes(_) => {
                m.wd = None;
                m.wd_unrepresentable = true;
            }
        }
    }
    m
}

fn build_proc(p: &Proc) -> Process {
    let ty: ProcessType = p.ty.parse().expect("process type");
    let mut b = ProcessBuilder::new(ty, p.command.clone());
    for o in &p.ops {
        match o {
            POp::Arg(a) => {
                b.arg(a.clone());
            }
            POp::Args(a) => {
                b.args(a.clone());
            }
            POp::Default(v) => {
                b.default(*v);
            }
            POp::WdApp => {
                b.working_directory(WorkingDirectory::App);
            }
            POp::WdDir(d) => {
                b.working_directory(WorkingDirectory::Directory(PathBuf::from(d)));
            }
            POp::WdBytes(bytes) => {
                b.working_directory(WorkingDirectory::Directory(PathBuf::from(<std::ffi::OsStr as std::os::unix::ffi::OsStrExt>::from_bytes(bytes))));
            }
        }
    }
    b.build()
}

fn tv_strs(v: Option<&TV>) -> Result<Vec<String>, Fail> {
    match v {
        None => Ok(vec![]),
        Some(TV::Array(a)) => a.iter().map(|x| x.as_str().map(String::from).ok_or_else(|| Fail::new("C07:wrong-kind", "expected string in array"))).collect(),
        Some(_) => Err(Fail::new("C07:wrong-kind", "expected array of strings")),
    }
}

fn only_keys(t: &TV, allowed: &[&str], what: &str) -> Check {
    if let TV::Table(kv) = t {
        for (k, _) in kv {
            ensure!(allowed.contains(&k.as_str()), "C07:unknown-key-written", "{what} contains key {k:?} which the spec does not define");
        }
        Ok(())
    } else {
        Err(Fail::new("C07:wrong-kind", format!("{what} is not a table")))
    }
}

fn tables<'a>(doc: &'a TV, key: &str) -> Result<Vec<&'a TV>, Fail> {
    match doc.get(key) {
        None => Ok(vec![]),
        Some(TV::Array(a)) => Ok(a.iter().collect()),
        Some(_) => Err(Fail::new("C07:wrong-kind", format!("{key} is not an array of tables"))),
    }
}

struct Env {
    scratch: Scratch,
    reader: RefCell<TomlReader>,
}

fn has_escapable(s: &str) -> bool {
    s.chars().any(|c| c == '"' || c == '\\' || (c as u32) < 0x20 || c as u32 == 0x7f)
}

fn check(ctx: &Ctx, env: &Env, d: &Doc) -> Check {
    ctx.eval();
    // every document is written over the file of the previous one (shorter and longer texts alternate), every 7th
    // one onto a missing file: the written text must not depend on what the path held before
    let path = env.scratch.path.join("doc.toml");
    if hash_of(&doc_json(d).to_string()) % 7 == 0 {
        let _ = std::fs::remove_file(&path);
    }
    let dj = doc_json(d).to_string();
    let mut nt = has_escapable(&dj.replace("\\\"", "").replace("\\\\", "§").replace('"', "")) || dj.contains("\\u00") || dj.contains("\\n") || dj.contains("§");
    let w = |r: Result<(), libcnb_common::toml_file::TomlFileError>| r.map_err(|e| Fail::new("C07:write-failed", e.to_string()));
    let text_of = |path: &std::path::Path| -> Result<(String, TV), Fail> {
        let text = std::fs::read_to_string(path).map_err(|e| Fail::new("C07:written-file-unreadable", e.to_string()))?;
        let tv = env.reader.borrow_mut().read(&text).map_err(|e| Fail::new("C07:not-valid-toml", format!("independent reader rejects the written text: {e}\n{text}")))?;
        Ok((text, tv))
    };
    match d {
        Doc::Launch(ops) => {
            ctx.class("doc:launch");
            let (launch, model) = build_launch(ops);
            if model.procs.iter().any(|p| p.wd_unrepresentable) {
                // a path TOML cannot carry: refusing is the only way not to write a different document
                ctx.class("doc:launch-with-unrepresentable-working-dir");
                ctx.nontrivial(hash_of(&dj));
                let _ = std::fs::remove_file(&path);
                return match write_toml_file(&launch, &path) {
                    Err(_) => Ok(()),
                    Ok(()) => Err(Fail::new("C07:unrepresentable-working-dir-written", format!("a non-UTF-8 working directory was written as {:?}", std::fs::read_to_string(&path).unwrap_or_default()))),
                };
            }
            w(write_toml_file(&launch, &path))?;
            let (text, tv) = text_of(&path)?;
            compare_launch(&tv, &model, &text)?;
            // libcnb reads it back equal
            let back: Launch = read_toml_file(&path).map_err(|e| Fail::new("C07:launch-does-not-read-back", format!("{e}\n{text}")))?;
            ensure!(back.processes == launch.processes, "C07:launch-readback-differs", "processes differ after read-back");
            ensure!(back.labels.iter().map(|l| (&l.key, &l.value)).eq(launch.labels.iter().map(|l| (&l.key, &l.value))), "C07:launch-readback-differs", "labels differ");
            ensure!(back.slices.iter().map(|l| &l.path_globs).eq(launch.slices.iter().map(|l| &l.path_globs)), "C07:launch-readback-differs", "slices differ");
        }
        Doc::BuildPlan(ops) => {
            ctx.class("doc:build-plan");
            let (plan, groups) = build_plan(ops)?;
            let n_or = ops.iter().filter(|o| matches!(o, BOp::Or)).count();
            if n_or >= 2 || groups.iter().any(|g| g.0.is_empty() && g.1.is_empty()) {
                nt = true;
                ctx.class("build-plan:>=2 or / empty group");
            }
            w(write_toml_file(&plan, &path))?;
            let (text, tv) = text_of(&path)?;
            compare_plan(&tv, &groups, &text)?;
        }
        Doc::Lcm(types, meta) => {
            ctx.class("doc:layer-content-metadata");
            let lt = types.map(|(launch, build, cache)| LayerTypes { launch, build, cache });
            let want_meta: Option<TV>;
            let text;
            let tv;
            match meta {
                LcmMeta::GenericNone | LcmMeta::Generic(_) => {
                    let m = match meta { LcmMeta::Generic(t) => Some(t.to_toml_table()), _ => None };
                    want_meta = match meta { LcmMeta::Generic(t) => Some(t.clone()), _ => None };
                    let v = LayerContentMetadata { types: lt, metadata: m };
                    w(write_toml_file(&v, &path))?;
                    (text, tv) = text_of(&path)?;
                    let back: LayerContentMetadata = read_toml_file(&path).map_err(|e| Fail::new("C07:lcm-does-not-read-back", format!("{e}\n{text}")))?;
                    ensure!(back.types == v.types, "C07:lcm-readback-differs", "types {:?} vs {:?}", back.types, v.types);
                    let bm = back.metadata.as_ref().map(TV::from_toml_table);
                    let same = match (&bm, &want_meta) { (None, None) => true, (Some(a), Some(b)) => a.sem_eq(b), _ => false };
                    ensure!(same, "C07:lcm-readback-differs", "metadata {bm:?} vs {want_meta:?}\n{text}");
                }
                LcmMeta::Typed { version, rev, tags, nested } => {
                    let m = TypedMeta { version: version.clone(), rev: *rev, tags: tags.clone(), nested: nested.iter().cloned().collect() };
                    want_meta = Some(TV::Table(vec![
                        ("version".into(), TV::Str(version.clone())),
                        ("rev".into(), TV::Int(*rev)),
                        ("tags".into(), TV::Array(tags.iter().map(|t| TV::Str(t.clone())).collect())),
                        ("nested".into(), TV::Table(m.nested.iter().map(|(k, v)| (k.clone(), TV::Str(v.clone()))).collect())),
                    ]));
                    let v = LayerContentMetadata { types: lt, metadata: m.clone() };
                    w(write_toml_file(&v, &path))?;
                    (text, tv) = text_of(&path)?;
                    let back: LayerContentMetadata<TypedMeta> = read_toml_file(&path).map_err(|e| Fail::new("C07:lcm-does-not-read-back", format!("{e}\n{text}")))?;
                    ensure!(back == v, "C07:lcm-readback-differs", "{back:?} vs {v:?}");
                }
            }
            only_keys(&tv, &["types", "metadata"], "layer content metadata")?;
            let got_types = match tv.get("types") {
                None => None,
                Some(t) => {
                    only_keys(t, &["launch", "build", "cache"], "types")?;
                    let f = |k: &str| matches!(t.get(k), Some(TV::Bool(true)));
                    Some((f("launch"), f("build"), f("cache")))
                }
            };
            ensure!(got_types == *types, "C07:lcm-types-differ", "types read {got_types:?}, constructed {types:?}\n{text}");
            let got_meta = tv.get("metadata");
            let same = match (got_meta, &want_meta) { (None, None) => true, (Some(a), Some(b)) => a.sem_eq(b), (None, Some(b)) => b.sem_eq(&TV::Table(vec![])), _ => false };
            ensure!(same, "C07:lcm-metadata-differs", "metadata read {got_meta:?}, constructed {want_meta:?}\n{text}");
            if want_meta.as_ref().map(|m| m.depth() >= 2).unwrap_or(false) {
                nt = true;
            }
        }
        Doc::Store(t) => {
            ctx.class("doc:store");
            let s = Store { metadata: t.to_toml_table() };
            w(write_toml_file(&s, &path))?;
            let (text, tv) = text_of(&path)?;
            only_keys(&tv, &["metadata"], "store")?;
            let got = tv.get("metadata").cloned().unwrap_or(TV::Table(vec![]));
            ensure!(got.sem_eq(t), "C07:store-metadata-differs", "read {got:?}, constructed {t:?}\n{text}");
            let back: Store = read_toml_file(&path).map_err(|e| Fail::new("C07:store-does-not-read-back", format!("{e}\n{text}")))?;
            ensure!(TV::from_toml_table(&back.metadata).sem_eq(t), "C07:store-readback-differs", "{:?}", back.metadata);
            if t.depth() >= 2 {
                nt = true;
            }
        }
        Doc::ExecD(kv) => {
            ctx.class("doc:exec.d-output");
            // last value wins for duplicate keys (it is a map)
            let mut model: std::collections::BTreeMap<String, String> = Default::default();
            for (k, v) in kv {
                model.insert(k.clone(), v.clone());
            }
            let arg = json!(model.iter().map(|(k, v)| json!([k, v])).collect::<Vec<_>>()).to_string();
            let out_path = env.scratch.path.join("fd3.out");
            let f = std::fs::File::create(&out_path).unwrap();
            use std::os::unix::io::AsRawFd;
            use std::os::unix::process::CommandExt;
            let fd = f.as_raw_fd();
            let mut cmd = std::process::Command::new(bin_dir().join("vworker"));
            cmd.arg("execd").arg(arg);
            unsafe {
                cmd.pre_exec(move || {
                    if fd == 3 {
                        // clear close-on-exec
                        let flags = libc::fcntl(3, libc::F_GETFD);
                        libc::fcntl(3, libc::F_SETFD, flags & !libc::FD_CLOEXEC);
                    } else if libc::dup2(fd, 3) < 0 {
                        return Err(std::io::Error::last_os_error());
                    }
                    Ok(())
                });
            }
            let st = cmd.status().map_err(|e| Fail::new("harness:vworker", e.to_string()))?;
            ensure!(st.success(), "C07:execd-writer-failed", "exit {st:?}");
            drop(f);
            let (text, tv) = text_of(&out_path)?;
            let got: std::collections::BTreeMap<String, String> = match &tv {
                TV::Table(t) => t.iter().map(|(k, v)| (k.clone(), v.as_str().unwrap_or("<not a string>").to_string())).collect(),
                _ => Default::default(),
            };
            ensure!(got == model, "C07:execd-output-differs", "read {got:?}, constructed {model:?}\n{text}");
        }
        Doc::Package { uri, deps, windows } => {
            ctx.class("doc:package-descriptor");
            let pd = PackageDescriptor {
                buildpack: PackageDescriptorBuildpackReference::try_from(uri.as_str()).map_err(|e| Fail::new("harness:uri", format!("{e:?}")))?,
                dependencies: deps.iter().map(|d| PackageDescriptorDependency::try_from(d.as_str()).map_err(|e| Fail::new("harness:uri", format!("{e:?}")))).collect::<Result<_, _>>()?,
                platform: match windows { None => Platform::default(), Some(true) => Platform { os: PlatformOs::Windows }, Some(false) => Platform { os: PlatformOs::Linux } },
            };
            w(write_toml_file(&pd, &path))?;
            let (text, tv) = text_of(&path)?;
            only_keys(&tv, &["buildpack", "dependencies", "platform"], "package.toml")?;
            ensure!(tv.get("buildpack").and_then(|b| b.get("uri")).and_then(TV::as_str) == Some(uri), "C07:package-uri-differs", "{text}");
            let got: Vec<String> = tables(&tv, "dependencies")?.iter().map(|t| t.get("uri").and_then(TV::as_str).unwrap_or("<missing>").to_string()).collect();
            ensure!(got == *deps, "C07:package-dependencies-differ", "read {got:?}, constructed {deps:?}\n{text}");
            let os = tv.get("platform").and_then(|p| p.get("os")).and_then(TV::as_str).unwrap_or("linux");
            ensure!(os == if *windows == Some(true) { "windows" } else { "linux" }, "C07:package-platform-differs", "{text}");
            let back: PackageDescriptor = read_toml_file(&path).map_err(|e| Fail::new("C07:package-does-not-read-back", format!("{e}\n{text}")))?;
            ensure!(back.buildpack == pd.buildpack && back.dependencies == pd.dependencies && back.platform.os == pd.platform.os, "C07:package-readback-differs", "{back:?}");
        }
    }
    if nt {
        ctx.class("nontrivial");
        ctx.nontrivial(hash_of(&dj));
        if (ctx.samples_len() < 2 || hash_of(&dj) % 11 == 0) {
            ctx.sample(8, || doc_json(d));
        }
    }
    Ok(())
}

pub fn run(ctx: &Ctx) {
    ctx.set_rule("generated programs over the public builders and types: LaunchBuilder/ProcessBuilder call sequences (process, processes, label(s), slice(s), arg, args, default, working_directory in any order and multiplicity; in ~5% a final non-UTF-8 working directory, which must be refused), BuildPlanBuilder sequences of provides/requires(+metadata, also set twice — the second value, possibly empty, counts)/or incl. leading, trailing and consecutive or, LayerContentMetadata (types None / all 8 flag combinations; generic, absent and typed metadata), Store, ExecDProgramOutput (through a helper process whose fd 3 is a file; built with ExecDProgramOutput::new or, for an odd number of pairs, through the From<iterator of pairs> conversion), PackageDescriptor; strings weighted towards quotes, backslashes, control characters, NUL, DEL, U+0085, U+2028, BOM, '#', '=', '[', astral characters and the empty string; metadata tables nest all TOML value kinds with arbitrary keys. Oracle: Python tomllib must parse the written text; a reader knowing only the spec's field names and defaults must recover the independently computed model; unknown keys in the output are a violation; libcnb re-reads an equal value where it can. Non-trivial: payload contains a character needing TOML escaping or metadata nested >= 2, or the builder sequence has >= 2 `or` / an empty group; distinct = hash of the program.");
    ctx.assume("datetimes are restricted to local date-times/dates without fractional seconds so that their text form is reader-independent");
    let env = Env { scratch: Scratch::new("c07"), reader: RefCell::new(TomlReader::new()) };
    for (_p, v) in ctx.regress_files() {
        let d = doc_from_json(&v["case"]);
        ctx.check_case("regress", check(ctx, &env, &d), || v["case"].clone());
    }
    let _ = pick_idx(0, 1);
    ctx.run_prop("documents", doc_strategy(), ctx.tier.pick(12_000, 100_000), doc_json, |d| check(ctx, &env, d));
}

pub fn replay(ctx: &Ctx, _sub: &str, case: &Value) {
    let env = Env { scratch: Scratch::new("c07r"), reader: RefCell::new(TomlReader::new()) };
    let d = doc_from_json(case);
    ctx.check_case("replay", check(ctx, &env, &d), || case.clone());
}

// ---------------- reusable pieces (also used by C05, C20) ----------------

pub struct LaunchModel {
    procs: Vec<MProc>,
    labels: Vec<(String, String)>,
    slices: Vec<Vec<String>>,
}

pub fn build_launch(ops: &[LOp]) -> (Launch, LaunchModel) {
    let mut b = LaunchBuilder::new();
    let (mut mp, mut ml, mut ms): (Vec<MProc>, Vec<(String, String)>, Vec<Vec<String>>) = (vec![], vec![], vec![]);
    for o in ops {
        match o {
            LOp::Process(p) => {
                b.process(build_proc(p));
                mp.push(model_proc(p));
            }
            LOp::Processes(ps) => {
                b.processes(ps.iter().map(build_proc).collect::<Vec<_>>());
                mp.extend(ps.iter().map(model_proc));
            }
            LOp::Label(k, v) => {
                b.label(Label { key: k.clone(), value: v.clone() });
                ml.push((k.clone(), v.clone()));
            }
            LOp::Labels(l) => {
                b.labels(l.iter().map(|(k, v)| Label { key: k.clone(), value: v.clone() }).collect::<Vec<_>>());
                ml.extend(l.iter().cloned());
            }
            LOp::Slice(s) => {
                b.slice(Slice { path_globs: s.clone() });
                ms.push(s.clone());
            }
            LOp::Slices(ss) => {
                b.slices(ss.iter().map(|s| Slice { path_globs: s.clone() }).collect::<Vec<_>>());
                ms.extend(ss.iter().cloned());
            }
        }
    }
    (b.build(), LaunchModel { procs: mp, labels: ml, slices: ms })
}

/// the spec reader: only the spec's field names and defaults
pub fn compare_launch(tv: &TV, m: &LaunchModel, text: &str) -> Check {
    only_keys(tv, &["processes", "labels", "slices"], "launch.toml")?;
    let procs = tables(tv, "processes")?;
    ensure!(procs.len() == m.procs.len(), "C07:launch-process-count", "{} processes read, {} constructed\n{text}", procs.len(), m.procs.len());
    for (t, mp) in procs.iter().zip(&m.procs) {
        only_keys(t, &["type", "command", "args", "default", "working-dir"], "process")?;
        let got = MProc {
            ty: t.get("type").and_then(TV::as_str).unwrap_or("<missing>").to_string(),
            command: tv_strs(t.get("command"))?,
            args: tv_strs(t.get("args"))?,
            default: match t.get("default") {
                None => false,
                Some(TV::Bool(b)) => *b,
                Some(_) => return Err(Fail::new("C07:wrong-kind", "default not a bool")),
            },
            wd: match t.get("working-dir") {
                None => None,
                Some(TV::Str(s)) => Some(s.clone()),
                Some(_) => return Err(Fail::new("C07:wrong-kind", "working-dir not a string")),
            },
            wd_unrepresentable: false,
        };
        ensure!(t.get("command").is_some(), "C07:launch-process-differs", "command key missing\n{text}");
        // an explicit "." working-dir denotes the app directory as well (relative to the app dir)
        let norm = |m: &MProc| {
            let mut m = m.clone();
            if m.wd.as_deref() == Some(".") {
                m.wd = None;
            }
            m
        };
        ensure!(norm(&got) == norm(mp), "C07:launch-process-differs", "process read {got:?}, constructed {mp:?}\n{text}");
    }
    let labels = tables(tv, "labels")?;
    ensure!(labels.len() == m.labels.len(), "C07:launch-label-count", "{} vs {}", labels.len(), m.labels.len());
    for (t, (k, v)) in labels.iter().zip(&m.labels) {
        only_keys(t, &["key", "value"], "label")?;
        ensure!(t.get("key").and_then(TV::as_str) == Some(k) && t.get("value").and_then(TV::as_str) == Some(v), "C07:launch-label-differs", "label read {t:?}, constructed {k:?}={v:?}");
    }
    let slices = tables(tv, "slices")?;
    ensure!(slices.len() == m.slices.len(), "C07:launch-slice-count", "{} vs {}", slices.len(), m.slices.len());
    for (t, s) in slices.iter().zip(&m.slices) {
        only_keys(t, &["paths"], "slice")?;
        ensure!(t.get("paths").is_some() && tv_strs(t.get("paths"))? == *s, "C07:launch-slice-differs", "slice read {t:?}, constructed {s:?}");
    }
    Ok(())
}

pub type PlanGroups = Vec<(Vec<String>, Vec<(String, TV)>)>;

/// builds the plan through the public builder and, independently, the model: groups split at each `or`, first group top-level
pub fn build_plan(ops: &[BOp]) -> Result<(libcnb_data::build_plan::BuildPlan, PlanGroups), Fail> {
    let mut b = BuildPlanBuilder::new();
    let mut groups: PlanGroups = vec![(vec![], vec![])];
    for o in ops {
        match o {
            BOp::Provides(n) => {
                b = b.provides(n);
                groups.last_mut().unwrap().0.push(n.clone());
            }
            BOp::Requires(n, m) => {
                let mut r = Require::new(n.clone());
                if let Some(m) = m {
                    r.metadata(m.to_toml_table()).map_err(|e| Fail::new("C07:require-metadata-rejected", e.to_string()))?;
                }
                b = b.requires(r);
                groups.last_mut().unwrap().1.push((n.clone(), m.clone().unwrap_or(TV::Table(vec![]))));
            }
            BOp::RequiresTwice(n, first, second) => {
                let mut r = Require::new(n.clone());
                r.metadata(first.to_toml_table()).map_err(|e| Fail::new("C07:require-metadata-rejected", e.to_string()))?;
                r.metadata(second.to_toml_table()).map_err(|e| Fail::new("C07:require-metadata-rejected", e.to_string()))?;
                b = b.requires(r);
                groups.last_mut().unwrap().1.push((n.clone(), second.clone()));
            }
            BOp::Or => {
                b = b.or();
                groups.push((vec![], vec![]));
            }
        }
    }
    Ok((b.build(), groups))
}

pub fn compare_plan(tv: &TV, groups: &PlanGroups, text: &str) -> Check {
    only_keys(tv, &["provides", "requires", "or"], "build plan")?;
    let read_group = |t: &TV| -> Result<(Vec<String>, Vec<(String, TV)>), Fail> {
        let mut prov = vec![];
        for p in tables(t, "provides")? {
            only_keys(p, &["name"], "provides")?;
            prov.push(p.get("name").and_then(TV::as_str).ok_or_else(|| Fail::new("C07:plan-provide-without-name", text.to_string()))?.to_string());
        }
        let mut req = vec![];
        for r in tables(t, "requires")? {
            only_keys(r, &["name", "metadata"], "requires")?;
            let name = r.get("name").and_then(TV::as_str).ok_or_else(|| Fail::new("C07:plan-require-without-name", text.to_string()))?.to_string();
            let meta = r.get("metadata").cloned().unwrap_or(TV::Table(vec![]));
            req.push((name, meta));
        }
        Ok((prov, req))
    };
    let mut got = vec![read_group(tv)?];
    for o in tables(tv, "or")? {
        only_keys(o, &["provides", "requires"], "or")?;
        got.push(read_group(o)?);
    }
    ensure!(got.len() == groups.len(), "C07:plan-group-count", "{} groups read, {} constructed\n{text}", got.len(), groups.len());
    for (i, (g, m)) in got.iter().zip(groups).enumerate() {
        ensure!(g.0 == m.0, "C07:plan-provides-differ", "group {i}: provides read {:?}, constructed {:?}\n{text}", g.0, m.0);
        ensure!(g.1.len() == m.1.len() && g.1.iter().zip(&m.1).all(|(a, b)| a.0 == b.0 && a.1.sem_eq(&b.1)), "C07:plan-requires-differ", "group {i}: requires read {:?}, constructed {:?}\n{text}", g.1, m.1);
    }
    Ok(())
}

pub fn launch_ops_json(ops: &[LOp]) -> Value {
    doc_json(&Doc::Launch(ops.to_vec()))["launch"].clone()
}
pub fn launch_ops_from_json(v: &Value) -> Vec<LOp> {
    match doc_from_json(&json!({"launch": v})) {
        Doc::Launch(o) => o,
        _ => unreachable!(),
    }
}
pub fn plan_ops_json(ops: &[BOp]) -> Value {
    doc_json(&Doc::BuildPlan(ops.to_vec()))["build_plan"].clone()
}
pub fn plan_ops_from_json(v: &Value) -> Vec<BOp> {
    match doc_from_json(&json!({"build_plan": v})) {
        Doc::BuildPlan(o) => o,
        _ => unreachable!(),
    }
}
