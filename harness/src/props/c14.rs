//! C14 — composite package descriptors are normalised without losing dependencies.

use crate::core::{Check, Ctx, Fail, Scratch, hash_of, pick_idx};
use crate::tv::{TV, TomlReader, emit_doc};
use libcnb_data::buildpack::BuildpackId;
use libcnb_data::package_descriptor::PackageDescriptor;
use libcnb_package::package::package_composite_buildpack;
use proptest::prelude::*;
use serde_json::{Value, json};
use std::cell::RefCell;
use std::collections::BTreeMap;
use std::path::PathBuf;

#[derive(Clone, Debug, PartialEq, Eq, Hash)]
pub enum Dep {
    Libcnb(usize),
    /// relative path text (segments, '.', '..', redundant and trailing separators)
    Rel(String),
    Abs(String),
    Other(String),
}

#[derive(Clone, Debug, PartialEq, Eq, Hash)]
pub struct Case {
    /// source location segments (below the scratch root)
    src: Vec<String>,
    deps: Vec<Dep>,
    bp_uri: String,
    platform: Option<bool>, // None = omitted, Some(true) = linux, Some(false) = windows
    /// index (into the referenced ids) left out of the id->path map
    missing: Option<u16>,
    /// the source directory is handed over in a non-normalised spelling (<dir>/<x>/../<rest>)
    dotted_source: bool,
    /// the map knows only the referenced ids (so that "missing one id" can also mean an EMPTY map) instead of all ids
    minimal_map: bool,
}

const IDS: [&str; 7] = ["acme/one", "two", "acme/deep/three.x", "four-4", "a", "acme/One", "A"];
const PATHS: [&str; 7] = ["/packaged/x86/acme_one", "/p/two", "/packaged/x86/release/acme_deep_three.x", "/out/four-4", "/a", "/packaged/x86/acme_One", "/A"];

fn seg_strategy() -> impl Strategy<Value = String> {
    prop_oneof![
        5 => "[a-z][a-z0-9_-]{0,5}",
        2 => Just(".".to_string()),
        4 => Just("..".to_string()),
        1 => Just("...".to_string()),
        1 => Just("a.b".to_string()),
        1 => Just("~x".to_string()),
    ]
}

fn rel_strategy() -> impl Strategy<Value = String> {
    prop_oneof![
        1 => Just(String::new()),
        1 => Just(".".to_string()),
        1 => Just("..".to_string()),
        1 => Just("../../../../../../../../../../x".to_string()),
        // a relative path spelled exactly like one of the buildpack ids
        2 => any::<u16>().prop_map(|i| IDS[pick_idx(i, IDS.len())].to_string()),
        1 => Just("../../../elsewhere/bp".to_string()),
        10 => (proptest::collection::vec((seg_strategy(), 1usize..3), 1..7), any::<bool>()).prop_map(|(segs, trail)| {
            let mut s = String::new();
            for (i, (seg, nsep)) in segs.iter().enumerate() {
                if i > 0 {
                    s.push_str(&"/".repeat(*nsep));
                }
                s.push_str(seg);
            }
            if trail {
                s.push('/');
            }
            s
        }),
    ]
}

fn dep_strategy() -> impl Strategy<Value = Dep> {
    prop_oneof![
        4 => any::<u16>().prop_map(|i| Dep::Libcnb(pick_idx(i, IDS.len()))),
        4 => rel_strategy().prop_map(Dep::Rel),
        2 => prop_oneof![Just("/abs/path".to_string()), Just("/abs/../x/./y".to_string()), Just("/".to_string()), Just("/a/b/".to_string())].prop_map(Dep::Abs),
        4 => prop_oneof![
            Just("docker://docker.io/heroku/example:1.2.3".to_string()),
            Just("docker://registry.example.com:5000/ns/img@sha256:abcdef".to_string()),
            Just("https://example.com/a/../b.cnb?x=1&y=libcnb:two#frag".to_string()),
            Just("http://example.com/".to_string()),
            Just("urn:cnb:registry:heroku/nodejs@1.2.3".to_string()),
            Just("urn:cnb:builder:acme/one".to_string()),
            Just("file:///abs/file.cnb".to_string()),
        ].prop_map(Dep::Other),
    ]
}

/// packaged location of id `i` in this case: the same id is packaged to different places in different cases (another
/// package directory, profile or target), as it is between two builds of one libcnb-test process
fn loc_path(c: &Case, i: usize) -> String {
    match hash_of(&(c.src.clone(), c.bp_uri.clone(), c.deps.len())) % 3 {
        0 => PATHS[i].to_string(),
        n => format!("/pkg-v{n}{}", PATHS[i]),
    }
}

fn case_strategy() -> impl Strategy<Value = Case> {
    (
        proptest::collection::vec("[a-z][a-z0-9._~-]{0,6}", 0..4),
        proptest::collection::vec(dep_strategy(), 0..9),
        prop_oneof![3 => Just(".".to_string()), 1 => Just("./sub/dir".to_string()), 1 => Just("../sibling".to_string())],
        prop_oneof![Just(None), Just(Some(true)), Just(Some(false))],
        proptest::option::weighted(0.2, any::<u16>()),
        any::<bool>(),
        proptest::bool::weighted(0.3),
    )
        .prop_map(|(src, deps, bp_uri, platform, missing, minimal_map, dotted_source)| Case { src, deps, bp_uri, platform, missing, minimal_map, dotted_source })
}

fn dep_text(d: &Dep) -> String {
    match d {
        Dep::Libcnb(i) => format!("libcnb:{}", IDS[*i]),
        Dep::Rel(s) | Dep::Abs(s) | Dep::Other(s) => s.clone(),
    }
}

fn case_json(c: &Case) -> Value {
    json!({"src": c.src, "deps": c.deps.iter().map(|d| match d {
        Dep::Libcnb(i) => json!({"libcnb": i}),
        Dep::Rel(s) => json!({"rel": s}),
        Dep::Abs(s) => json!({"abs": s}),
        Dep::Other(s) => json!({"other": s}),
    }).collect::<Vec<_>>(), "bp_uri": c.bp_uri, "platform": c.platform, "missing": c.missing, "minimal_map": c.minimal_map, "dotted_source": c.dotted_source})
}

fn case_from_json(v: &Value) -> Case {
    Case {
        src: v["src"].as_array().unwrap().iter().map(|s| s.as_str().unwrap().to_string()).collect(),
        deps: v["deps"]
            .as_array()
            .unwrap()
            .iter()
            .map(|d| {
                let (k, x) = d.as_object().unwrap().iter().next().unwrap();
                match k.as_str() {
                    "libcnb" => Dep::Libcnb(x.as_u64().unwrap() as usize),
                    "rel" => Dep::Rel(x.as_str().unwrap().to_string()),
                    "abs" => Dep::Abs(x.as_str().unwrap().to_string()),
                    _ => Dep::Other(x.as_str().unwrap().to_string()),
                }
            })
            .collect(),
        bp_uri: v["bp_uri"].as_str().unwrap().to_string(),
        platform: v["platform"].as_bool(),
        missing: v["missing"].as_u64().map(|x| x as u16),
        minimal_map: v["minimal_map"].as_bool().unwrap_or(false),
        dotted_source: v["dotted_source"].as_bool().unwrap_or(false),
    }
}

/// reference lexical normalisation: absolute, no '.', no '..', no empty segments; '..' at the root stays at the root
fn ref_normalise(base_dir: &str, rel: &str) -> String {
    let joined = format!("{base_dir}/{rel}");
    let mut stack: Vec<&str> = vec![];
    for seg in joined.split('/') {
        match seg {
            "" | "." => {}
            ".." => {
                stack.pop();
            }
            s => stack.push(s),
        }
    }
    format!("/{}", stack.join("/"))
}

struct Env {
    scratch: Scratch,
    reader: RefCell<TomlReader>,
}

fn check(ctx: &Ctx, env: &Env, c: &Case) -> Check {
    ctx.eval();
    let mut src_dir = env.scratch.path.join(format!("case-{:016x}", hash_of(c)));
    let case_root = src_dir.clone();
    let _ = crate::fsutil::force_remove(&case_root);
    for s in &c.src {
        src_dir = src_dir.join(s);
    }
    let src_dir = src_dir.join("composite-bp");
    let dest = case_root.join("_dest");
    std::fs::create_dir_all(&src_dir).unwrap();
    std::fs::create_dir_all(&dest).unwrap();
    let bp_toml = "api = \"0.10\"\n\n[buildpack]\nid = \"acme/composite\"\nversion = \"1.2.3\"\n\n[[order]]\n[[order.group]]\nid = \"acme/one\"\nversion = \"0.0.1\"\n";
    std::fs::write(src_dir.join("buildpack.toml"), bp_toml).unwrap();
    // package.toml from the harness's own emitter
    let mut doc = vec![("buildpack".to_string(), TV::table(vec![("uri", TV::s(&c.bp_uri))]))];
    if !c.deps.is_empty() {
        doc.push(("dependencies".to_string(), TV::Array(c.deps.iter().map(|d| TV::table(vec![("uri", TV::Str(dep_text(d)))])).collect())));
    }
    if let Some(p) = c.platform {
        doc.push(("platform".to_string(), TV::table(vec![("os", TV::s(if p { "linux" } else { "windows" }))])));
    }
    let text = emit_doc(&TV::Table(doc));
    std::fs::write(src_dir.join("package.toml"), &text).unwrap();

    // id -> path map: complete for the referenced ids (plus unrelated ones), or missing exactly one referenced id
    let referenced: Vec<usize> = {
        let mut r: Vec<usize> = c.deps.iter().filter_map(|d| if let Dep::Libcnb(i) = d { Some(*i) } else { None }).collect();
        r.sort();
        r.dedup();
        r
    };
    let missing_id = match (c.missing, referenced.is_empty()) {
        (Some(m), false) => Some(referenced[pick_idx(m, referenced.len())]),
        _ => None,
    };
    let mut map: BTreeMap<BuildpackId, PathBuf> = BTreeMap::new();
    for (i, id) in IDS.iter().enumerate() {
        if Some(i) != missing_id && (!c.minimal_map || referenced.contains(&i)) {
            map.insert(id.parse().unwrap(), PathBuf::from(loc_path(c, i)));
        }
    }
    if map.is_empty() && missing_id.is_some() {
        ctx.class("missing-id-with-empty-map");
    }

    // classes
    let kinds: std::collections::BTreeSet<u8> = c.deps.iter().map(|d| match d { Dep::Libcnb(_) => 0, Dep::Rel(_) => 1, Dep::Abs(_) => 2, Dep::Other(_) => 3 }).collect();
    let has_dotdot = c.deps.iter().any(|d| matches!(d, Dep::Rel(s) if s.split('/').any(|x| x == "..")));
    if c.deps.len() >= 3 && kinds.len() >= 3 && has_dotdot {
        ctx.class("nontrivial");
        ctx.nontrivial(hash_of(c));
        ctx.sample(6, || json!({"package_toml": text, "source_dir": src_dir.strip_prefix(&env.scratch.path).unwrap().to_string_lossy(), "id_missing_from_map": missing_id.map(|i| IDS[i])}));
    }
    if missing_id.is_some() {
        ctx.class("missing-id-in-map");
    }

    // does libcnb accept the input at all? (outside the domain otherwise; counted)
    if let Err(e) = toml::from_str::<PackageDescriptor>(&text) {
        ctx.class("input-rejected-by-libcnb-parser");
        let _ = crate::fsutil::force_remove(&case_root);
        // only URI spellings the URI library refuses may land here; anything else is a harness bug
        ensure!(e.to_string().to_lowercase().contains("uri") || e.to_string().contains("invalid"), "harness:unexpected-input-rejection", "{e}: {text}");
        return Ok(());
    }

    // the same directory, spelled with a `..` component (as CARGO_MANIFEST_DIR joined with ../x typically is)
    let given_dir = if c.dotted_source {
        std::fs::create_dir_all(src_dir.parent().unwrap().join("app")).unwrap();
        src_dir.parent().unwrap().join("app").join("..").join(src_dir.file_name().unwrap())
    } else {
        src_dir.clone()
    };
    let result = package_composite_buildpack(&given_dir, &dest, &map);
    let out = (|| -> Check {
        match (&result, missing_id) {
            (Ok(()), Some(m)) => Err(Fail::new("C14:unknown-libcnb-id-not-an-error", format!("id {} has no packaged location but packaging succeeded", IDS[m]))),
            // any error will do: "an id without a known location is an error", whatever its wording
            (Err(_), Some(_)) => Ok(()),
            (Err(e), None) => Err(Fail::new("C14:packaging-failed", format!("{e}; package.toml: {text}"))),
            (Ok(()), None) => {
                let got_bp = std::fs::read(dest.join("buildpack.toml")).unwrap_or_default();
                ensure!(got_bp == bp_toml.as_bytes(), "C14:buildpack-toml-not-copied", "buildpack.toml differs");
                let out_text = std::fs::read_to_string(dest.join("package.toml")).map_err(|e| Fail::new("C14:no-package-toml", e.to_string()))?;
                let tv = env.reader.borrow_mut().read(&out_text).map_err(|e| Fail::new("C14:output-not-valid-toml", format!("{e}: {out_text}")))?;
                let uri = tv.get("buildpack").and_then(|b| b.get("uri")).and_then(TV::as_str).unwrap_or("<none>");
                ensure!(uri == c.bp_uri, "C14:buildpack-uri-changed", "buildpack.uri {uri:?} want {:?}", c.bp_uri);
                let os = tv.get("platform").and_then(|p| p.get("os")).and_then(TV::as_str).unwrap_or("linux");
                let want_os = if c.platform == Some(false) { "windows" } else { "linux" };
                ensure!(os == want_os, "C14:platform-changed", "platform.os {os:?} want {want_os:?}");
                let empty = vec![];
                let deps = tv.get("dependencies").and_then(TV::as_array).unwrap_or(&empty);
                ensure!(deps.len() == c.deps.len(), "C14:dependency-count-changed", "{} dependencies out, {} in; out: {out_text}", deps.len(), c.deps.len());
                let base = src_dir.to_string_lossy().to_string();
                for (i, (d, o)) in c.deps.iter().zip(deps.iter()).enumerate() {
                    let got = o.get("uri").and_then(TV::as_str).unwrap_or("<none>");
                    let want = match d {
                        Dep::Libcnb(k) => loc_path(c, *k),
                        Dep::Rel(r) => ref_normalise(&base, r),
                        Dep::Abs(s) | Dep::Other(s) => s.clone(),
                    };
                    // a relative path: the directory it denotes, with or without a trailing separator
                    let same = got == want || (matches!(d, Dep::Rel(_)) && got.trim_end_matches('/') == want.trim_end_matches('/') && !got.trim_end_matches('/').is_empty());
                    if !same {
                        let sig = match d {
                            Dep::Libcnb(_) => "C14:libcnb-dependency-wrong-location",
                            Dep::Rel(_) => "C14:relative-path-wrong",
                            Dep::Abs(_) => "C14:absolute-path-changed",
                            Dep::Other(_) => "C14:other-uri-changed",
                        };
                        return Err(Fail::new(sig, format!("dependency #{i} {:?}: got {got:?} want {want:?}", dep_text(d))));
                    }
                }
                // re-parses with libcnb
                ensure!(toml::from_str::<PackageDescriptor>(&out_text).is_ok(), "C14:output-does-not-reparse", "{out_text}");
                // the SAME composite packaged again by the same process, its dependencies now being packaged elsewhere (what
                // two builds of one libcnb-test process do): the second descriptor names the new locations
                if c.deps.iter().any(|d| matches!(d, Dep::Libcnb(_))) && hash_of(c) % 3 == 0 {
                    ctx.class("packaged-twice-with-moved-dependencies");
                    let map2: BTreeMap<BuildpackId, PathBuf> = map.iter().map(|(k, v)| (k.clone(), PathBuf::from(format!("/second-run{}", v.display())))).collect();
                    let dest2 = case_root.join("dest-second");
                    std::fs::create_dir_all(&dest2).unwrap();
                    package_composite_buildpack(&given_dir, &dest2, &map2).map_err(|e| Fail::new("C14:packaging-failed", format!("second packaging: {e}")))?;
                    let text2 = std::fs::read_to_string(dest2.join("package.toml")).map_err(|e| Fail::new("C14:no-package-toml", e.to_string()))?;
                    let tv2 = env.reader.borrow_mut().read(&text2).map_err(|e| Fail::new("C14:output-not-valid-toml", format!("{e}: {text2}")))?;
                    let deps2 = tv2.get("dependencies").and_then(TV::as_array).unwrap_or(&empty);
                    ensure!(deps2.len() == c.deps.len(), "C14:dependency-count-changed", "second packaging: {} dependencies out, {} in", deps2.len(), c.deps.len());
                    for (i, (d, o)) in c.deps.iter().zip(deps2.iter()).enumerate() {
                        if let Dep::Libcnb(k) = d {
                            let got = o.get("uri").and_then(TV::as_str).unwrap_or("<none>");
                            let want = format!("/second-run{}", loc_path(c, *k));
                            ensure!(got == want, "C14:libcnb-dependency-wrong-location", "second packaging, dependency #{i} {:?}: got {got:?} want {want:?}", dep_text(d));
                        }
                    }
                }
                Ok(())
            }
        }
    })();
    let _ = crate::fsutil::force_remove(&case_root);
    out
}

pub fn run(ctx: &Ctx) {
    ctx.set_rule("package.toml files with 0..8 dependencies mixing libcnb:<id> (7 ids incl. pairs that differ only in letter case), relative paths from segments {name, ., .., ...} with redundant/trailing separators (also empty, climbing above the root), absolute paths (also with ..), docker/https/http/urn/file URIs with query+fragment, in any order and multiplicity; buildpack uri '.', './sub/dir' or '../sibling'; platform omitted/linux/windows; id->path map complete or missing exactly one referenced id, the locations differing between cases (one process packages the same ids to different places); source directory at 0..3 generated URI-safe path segments below the scratch root, handed over normalised or spelled with a `..` component; driven through package_composite_buildpack (every third case with a libcnb: dependency a second time in the same process with all locations moved), output decoded by Python tomllib. Oracle: same count and order, position-wise expected string (map[id] / own lexical normalisation / verbatim), uri+platform preserved, re-parses; missing id => Err. Non-trivial: >=3 dependencies of >=3 kinds with a relative path containing '..'; distinct = hash of the case.");
    ctx.assume("URI spellings are canonical (lower-case scheme/host, unreserved path characters) so that 'verbatim' is checked on strings the URI library does not re-spell");
    let env = Env { scratch: Scratch::new("c14"), reader: RefCell::new(TomlReader::new()) };
    for (_p, v) in ctx.regress_files() {
        let c = case_from_json(&v["case"]);
        ctx.check_case("regress", check(ctx, &env, &c), || v["case"].clone());
    }
    ctx.run_prop("descriptors", case_strategy(), ctx.tier.pick(8000, 60000), case_json, |c| check(ctx, &env, c));
}

pub fn replay(ctx: &Ctx, _sub: &str, case: &Value) {
    let env = Env { scratch: Scratch::new("c14r"), reader: RefCell::new(TomlReader::new()) };
    let c = case_from_json(case);
    ctx.check_case("replay", check(ctx, &env, &c), || case.clone());
}
