//! C13 — buildpacks are packaged in dependency order.

use crate::core::{Check, Ctx, Fail, Scratch, hash_of, ncpu, par_map, pick_idx};
use libcnb_package::buildpack_dependency_graph::build_libcnb_buildpacks_dependency_graph;
use libcnb_package::dependency_graph::get_dependencies;
use proptest::prelude::*;
use serde_json::{Value, json};
use std::collections::BTreeSet;
use std::path::Path;

/// DAG on n nodes; edge (u, v): u depends on v.
#[derive(Clone, Debug, PartialEq, Eq, Hash)]
pub struct G {
    n: usize,
    edges: Vec<(usize, usize)>,
    /// extra duplicate mentions of existing edges (duplicate dependency entries in package.toml)
    dup: Vec<(usize, usize)>,
    /// dangling dependency: (node, unknown id)
    dangling: Option<usize>,
}

pub fn node_id(i: usize) -> String {
    // ids with '/', '.', '-' — different lengths so that prefix confusion would show
    match i % 4 {
        0 => format!("acme/n{i}"),
        // node 5 is "N1": it differs from node 1 ("n1") only in letter case
        1 if i >= 4 => format!("N{}", i - 4),
        1 => format!("n{i}"),
        2 => format!("acme/sub/n{i}.x"),
        _ => format!("n{i}-bp"),
    }
}

fn is_acyclic(n: usize, edges: &[(usize, usize)]) -> bool {
    // Kahn
    let mut indeg = vec![0; n];
    for (_, v) in edges {
        indeg[*v] += 1;
    }
    let mut stack: Vec<usize> = (0..n).filter(|i| indeg[*i] == 0).collect();
    let mut seen = 0;
    while let Some(u) = stack.pop() {
        seen += 1;
        for (a, b) in edges {
            if *a == u {
                indeg[*b] -= 1;
                if indeg[*b] == 0 {
                    stack.push(*b);
                }
            }
        }
    }
    seen == n
}

pub fn all_dags(n: usize) -> Vec<G> {
    let pairs: Vec<(usize, usize)> = (0..n).flat_map(|u| (0..n).filter(move |v| *v != u).map(move |v| (u, v))).collect();
    let mut out = vec![];
    for mask in 0u32..(1u32 << pairs.len()) {
        let edges: Vec<(usize, usize)> = pairs.iter().enumerate().filter(|(i, _)| mask >> i & 1 == 1).map(|(_, e)| *e).collect();
        if is_acyclic(n, &edges) {
            out.push(G { n, edges, dup: vec![], dangling: None });
        }
    }
    out
}

/// Write the workspace for a graph. Nodes with dependencies alternate between composite buildpacks and libcnb.rs component buildpacks carrying a package.toml, leaves alternate between
/// libcnb.rs buildpacks (Cargo.toml + component descriptor) and composites without dependencies. Decoys: non-libcnb
/// component buildpacks, docker/path dependencies, nested directories.
pub fn materialise(g: &G, root: &Path) -> std::io::Result<()> {
    std::fs::create_dir_all(root)?;
    for i in 0..g.n {
        let deps: Vec<usize> = g.edges.iter().filter(|(u, _)| *u == i).map(|(_, v)| *v).collect();
        // every other node from the third on lives BELOW the directory of an earlier libcnb.rs crate buildpack (the layout
        // of test fixtures: <crate>/tests/fixtures/<buildpack>), if that earlier node is a crate buildpack
        let host = if i >= 2 && (i + g.edges.len()) % 2 == 0 { crate_dir_of(g, i - 2, root) } else { None };
        let dir = match host {
            Some(h) => h.join(format!("tests/fixtures/bp{i}")),
            None => plain_dir_of(i, root),
        };
        std::fs::create_dir_all(&dir)?;
        let id = node_id(i);
        let has_package_toml = !deps.is_empty() || g.dangling == Some(i) || i % 3 == 2;
        // a libcnb.rs (component) buildpack may declare dependencies in a package.toml just like a composite one
        let component_with_deps = has_package_toml && (i + g.edges.len()) % 3 == 1;
        if has_package_toml {
            if component_with_deps {
                std::fs::write(
                    dir.join("buildpack.toml"),
                    format!("api = \"0.10\"\n\n[buildpack]\nid = \"{id}\"\nversion = \"0.0.{i}\"\n\n[[targets]]\nos = \"linux\"\n"),
                )?;
                std::fs::write(dir.join("Cargo.toml"), format!("[package]\nname = \"bp{i}\"\nversion = \"0.0.0\"\n"))?;
            } else {
                std::fs::write(
                    dir.join("buildpack.toml"),
                    format!("api = \"0.10\"\n\n[buildpack]\nid = \"{id}\"\nversion = \"0.0.{i}\"\n\n[[order]]\n[[order.group]]\nid = \"some/other\"\nversion = \"1.0.0\"\n"),
                )?;
            }
            let mut p = String::from("[buildpack]\nuri = \".\"\n");
            // decoys first / interleaved
            p.push_str("\n[[dependencies]]\nuri = \"docker://docker.io/heroku/decoy:1.0\"\n");
            for (k, d) in deps.iter().enumerate() {
                p.push_str(&format!("\n[[dependencies]]\nuri = \"libcnb:{}\"\n", node_id(*d)));
                if g.dup.contains(&(i, *d)) {
                    p.push_str(&format!("\n[[dependencies]]\nuri = \"libcnb:{}\"\n", node_id(*d)));
                }
                if k == 0 {
                    p.push_str("\n[[dependencies]]\nuri = \"../other-buildpack\"\n");
                }
            }
            if g.dangling == Some(i) {
                // an id that exists nowhere, or (odd nodes) the id of the shell buildpack next door, which is not a
                // libcnb.rs/composite buildpack and therefore cannot be built by this tool either
                p.push_str(if i % 2 == 0 { "\n[[dependencies]]\nuri = \"libcnb:acme/does-not-exist\"\n" } else { "\n[[dependencies]]\nuri = \"libcnb:acme/shell\"\n" });
            }
            p.push_str("\n[[dependencies]]\nuri = \"https://example.com/bp.cnb?x=libcnb:n1\"\n");
            std::fs::write(dir.join("package.toml"), p)?;
        } else {
            std::fs::write(
                dir.join("buildpack.toml"),
                format!("api = \"0.10\"\n\n[buildpack]\nid = \"{id}\"\nversion = \"0.0.{i}\"\n\n[[targets]]\nos = \"linux\"\n"),
            )?;
            std::fs::write(dir.join("Cargo.toml"), format!("[package]\nname = \"bp{i}\"\nversion = \"0.0.0\"\n"))?;
        }
    }
    // decoy: non-libcnb component buildpack (no Cargo.toml) must not become a node
    let decoy = root.join("buildpacks/shell-bp");
    std::fs::create_dir_all(&decoy)?;
    std::fs::write(decoy.join("buildpack.toml"), "api = \"0.10\"\n\n[buildpack]\nid = \"acme/shell\"\nversion = \"1.0.0\"\n")?;
    Ok(())
}

fn plain_dir_of(i: usize, root: &Path) -> std::path::PathBuf {
    if i % 2 == 0 { root.join(format!("buildpacks/bp{i}")) } else { root.join(format!("nested/deeper/bp{i}")) }
}

/// directory of node k if it is materialised as a libcnb.rs crate buildpack at its plain location
fn crate_dir_of(g: &G, k: usize, root: &Path) -> Option<std::path::PathBuf> {
    let deps = g.edges.iter().filter(|(u, _)| *u == k).count();
    let has_package_toml = deps > 0 || g.dangling == Some(k) || k % 3 == 2;
    let component_with_deps = has_package_toml && (k + g.edges.len()) % 3 == 1;
    let nested_itself = k >= 2 && (k + g.edges.len()) % 2 == 0;
    if (!has_package_toml || component_with_deps) && !nested_itself { Some(plain_dir_of(k, root)) } else { None }
}

fn closure(g: &G, roots: &[usize]) -> BTreeSet<usize> {
    let mut seen = BTreeSet::new();
    let mut stack: Vec<usize> = roots.to_vec();
    while let Some(u) = stack.pop() {
        if seen.insert(u) {
            for (a, b) in &g.edges {
                if *a == u {
                    stack.push(*b);
                }
            }
        }
    }
    seen
}

/// validity predicate on an order (node indices)
fn validate_order(g: &G, roots: &[usize], order: &[usize]) -> Check {
    let want = closure(g, roots);
    let got: BTreeSet<usize> = order.iter().copied().collect();
    ensure!(got.len() == order.len(), "C13:duplicate-in-order", "order {order:?} contains a buildpack twice (roots {roots:?})");
    if got != want {
        let missing: Vec<_> = want.difference(&got).collect();
        let extra: Vec<_> = got.difference(&want).collect();
        let sig = if !missing.is_empty() { "C13:dependency-missing-from-order" } else { "C13:unrelated-buildpack-in-order" };
        return Err(Fail::new(sig, format!("order {order:?} for roots {roots:?}: missing {missing:?} extra {extra:?}")));
    }
    for (u, v) in &g.edges {
        if let (Some(pu), Some(pv)) = (order.iter().position(|x| x == u), order.iter().position(|x| x == v)) {
            ensure!(pv < pu, "C13:dependency-after-dependent", "order {order:?} for roots {roots:?}: {u} depends on {v} but comes first");
        }
    }
    Ok(())
}

fn ordered_selections(n: usize, with_repeats: bool) -> Vec<Vec<usize>> {
    // all non-empty ordered selections of distinct nodes
    fn rec(n: usize, cur: &mut Vec<usize>, out: &mut Vec<Vec<usize>>) {
        if !cur.is_empty() {
            out.push(cur.clone());
        }
        for i in 0..n {
            if !cur.contains(&i) {
                cur.push(i);
                rec(n, cur, out);
                cur.pop();
            }
        }
    }
    let mut out = vec![];
    rec(n, &mut vec![], &mut out);
    if with_repeats {
        for i in 0..n {
            out.push(vec![i, i]);
            for j in 0..n {
                if i != j {
                    out.push(vec![i, j, i]);
                }
            }
        }
    }
    out
}

struct GraphResult {
    evals: u64,
    nt: Vec<u64>,
    fail: Option<(Fail, Value)>,
    inconclusive: Option<String>,
}

fn g_json(g: &G, roots: &[usize]) -> Value {
    json!({"n": g.n, "edges": g.edges, "dup": g.dup, "dangling": g.dangling, "roots": roots})
}

fn g_from_json(v: &Value) -> (G, Vec<usize>) {
    let pairs = |x: &Value| -> Vec<(usize, usize)> {
        x.as_array().map(|a| a.iter().map(|e| (e[0].as_u64().unwrap() as usize, e[1].as_u64().unwrap() as usize)).collect()).unwrap_or_default()
    };
    (
        G { n: v["n"].as_u64().unwrap() as usize, edges: pairs(&v["edges"]), dup: pairs(&v["dup"]), dangling: v["dangling"].as_u64().map(|x| x as usize) },
        v["roots"].as_array().unwrap().iter().map(|x| x.as_u64().unwrap() as usize).collect(),
    )
}

fn graph_nontrivial(g: &G, roots: &[usize]) -> bool {
    // a shared dependency reachable from >= 2 selected roots, or a dependency path of length >= 2
    let path2 = g.edges.iter().any(|(u, v)| roots_reach(g, roots, *u) && g.edges.iter().any(|(a, _)| a == v));
    let shared = (0..g.n).any(|x| {
        let indeg = g.edges.iter().filter(|(_, v)| *v == x).count();
        indeg >= 2 && roots.iter().filter(|r| **r != x && closure(g, &[**r]).contains(&x)).count() >= 2
    });
    path2 || shared
}
fn roots_reach(g: &G, roots: &[usize], x: usize) -> bool {
    closure(g, roots).contains(&x)
}

fn check_graph(scratch: &Path, g: &G, selections: &[Vec<usize>], tag: &str) -> GraphResult {
    let mut res = GraphResult { evals: 0, nt: vec![], fail: None, inconclusive: None };
    let dir = scratch.join(format!("{tag}-{:016x}", hash_of(g)));
    let _ = crate::fsutil::force_remove(&dir);
    if let Err(e) = materialise(g, &dir) {
        res.inconclusive = Some(format!("materialise: {e}"));
        return res;
    }
    let built = build_libcnb_buildpacks_dependency_graph(&dir);
    res.evals += 1;
    match (&built, g.dangling) {
        (Ok(graph), Some(d)) => {
            // "a dependency on an unknown buildpack is an error rather than being dropped": the error may surface when
            // the graph is built (as today) or when the order of a selection that reaches the dangling node is computed
            let all: Vec<_> = graph.node_weights().collect();
            match get_dependencies(graph, &all) {
                Err(_) => {}
                // odd nodes name the shell buildpack next door: an implementation that knows it may keep it in the order — but
                // the dependency must not silently disappear
                Ok(order) if d % 2 == 1 && order.iter().any(|n| n.buildpack_id.as_str() == "acme/shell") => {}
                Ok(_) => {
                    res.fail = Some((Fail::new("C13:dangling-dependency-not-an-error", format!("node {d} depends on a buildpack that is not part of the graph, but both graph construction and the build order of all buildpacks succeeded without it")), g_json(g, &[])));
                }
            }
        }
        (Err(_), Some(_)) => {
            // any error will do: the property asks for "an error rather than being dropped", not for a wording
        }
        (Err(e), None) => {
            res.fail = Some((Fail::new("C13:graph-construction-failed", e.to_string()), g_json(g, &[])));
        }
        (Ok(graph), None) => {
            // every generated libcnb.rs/composite buildpack must be a node (further nodes are none of C13's business)
            let ids: BTreeSet<String> = graph.node_weights().map(|n| n.buildpack_id.to_string()).collect();
            let want_ids: BTreeSet<String> = (0..g.n).map(node_id).collect();
            if !want_ids.is_subset(&ids) {
                res.fail = Some((Fail::new("C13:graph-node-set-differs", format!("nodes {ids:?} want {want_ids:?}")), g_json(g, &[])));
            } else {
                let idx_of = |id: &str| (0..g.n).find(|i| node_id(*i) == id);
                for roots in selections {
                    res.evals += 1;
                    let root_refs: Vec<_> = roots
                        .iter()
                        .map(|r| graph.node_weights().find(|n| n.buildpack_id.as_str() == node_id(*r)).unwrap())
                        .collect();
                    let r = match get_dependencies(graph, &root_refs) {
                        Err(e) => Err(Fail::new("C13:get-dependencies-error", e.to_string())),
                        Ok(order) => {
                            let order_idx: Result<Vec<usize>, Fail> = order.iter().map(|n| idx_of(n.buildpack_id.as_str()).ok_or_else(|| Fail::new("C13:unrelated-buildpack-in-order", format!("{} is in the order for roots {roots:?}", n.buildpack_id)))).collect();
                            order_idx.and_then(|o| validate_order(g, roots, &o))
                        }
                    };
                    if graph_nontrivial(g, roots) {
                        res.nt.push(hash_of(&(g, roots)));
                    }
                    if let Err(f) = r {
                        if res.fail.is_none() {
                            res.fail = Some((f, g_json(g, roots)));
                        }
                    }
                }
            }
        }
    }
    let _ = crate::fsutil::force_remove(&dir);
    res
}

#[derive(Clone, Debug)]
pub struct RandG {
    g: G,
    roots: Vec<usize>,
}

fn rand_graph_strategy() -> impl Strategy<Value = RandG> {
    (6usize..13)
        .prop_flat_map(|n| {
            (
                Just(n),
                proptest::collection::vec(any::<u16>(), n),                       // permutation keys
                proptest::collection::vec(any::<u8>(), n * (n - 1) / 2),          // edge dice
                0u8..200,                                                         // density threshold
                proptest::collection::vec(any::<u16>(), 1..5),                    // roots
                proptest::collection::vec(any::<u16>(), 0..3),                    // duplicate edges
                proptest::option::weighted(0.15, any::<u16>()),                   // dangling
            )
        })
        .prop_map(|(n, keys, dice, density, roots, dups, dangling)| {
            let mut topo: Vec<usize> = (0..n).collect();
            topo.sort_by_key(|i| (keys[*i], *i));
            let mut edges = vec![];
            let mut k = 0;
            for a in 0..n {
                for b in (a + 1)..n {
                    if dice[k] < density {
                        edges.push((topo[a], topo[b])); // earlier in topo depends on later
                    }
                    k += 1;
                }
            }
            let dup = if edges.is_empty() { vec![] } else { dups.iter().map(|d| edges[pick_idx(*d, edges.len())]).collect() };
            RandG {
                g: G { n, edges, dup, dangling: dangling.map(|d| pick_idx(d, n)) },
                roots: roots.iter().map(|r| pick_idx(*r, n)).collect(),
            }
        })
}

pub fn run(ctx: &Ctx) {
    ctx.set_rule("exhaustive: every labelled DAG on n <= 4 (quick) / n <= 5 (thorough) nodes, materialised as a directory of composite / libcnb.rs buildpacks (ids with '/', decoy non-libcnb buildpacks, docker/path/https dependencies, two ids differing only in letter case, buildpacks nested below another crate buildpack's tests/fixtures directory) and read back through build_libcnb_buildpacks_dependency_graph, x every non-empty ordered selection of distinct roots plus selections with a repeated root, through get_dependencies; random DAGs on 6..12 nodes with duplicate dependency entries; graphs with one dangling libcnb: dependency (an id that exists nowhere, or the id of a non-libcnb buildpack found in the same walk). Oracle: validity predicate (output set = reflexive-transitive closure of the roots, no element twice, every dependency before its dependents; every generated buildpack is a node), dangling => an error when the graph is built or when the order over all buildpacks is computed. Non-trivial: a dependency path of length >= 2 below a selected root, or a node with in-degree >= 2 reachable from >= 2 selected roots; distinct = hash of (graph, selection).");
    ctx.assume("input graphs are acyclic (the property quantifies over acyclic sets)");
    ctx.set_exhaustive(true);
    ctx.extra("exhaustive_subspace", json!("all labelled DAGs up to the stated node count x all ordered root selections; random larger graphs are sampled"));
    let scratch = Scratch::new("c13");
    for (_p, v) in ctx.regress_files() {
        replay(ctx, "", &v["case"]);
    }
    let max_n = ctx.tier.pick(4, 5);
    let mut graphs: Vec<G> = vec![];
    for n in 1..=max_n {
        graphs.extend(all_dags(n));
    }
    ctx.class_n("exhaustive:dags", graphs.len() as u64);
    // dangling variants for all graphs up to 3 nodes
    let mut dangling: Vec<G> = vec![];
    for g in graphs.iter().filter(|g| g.n <= 3) {
        for d in 0..g.n {
            let mut h = g.clone();
            h.dangling = Some(d);
            dangling.push(h);
        }
    }
    ctx.class_n("exhaustive:dangling-variants", dangling.len() as u64);
    graphs.extend(dangling);
    let sels: Vec<Vec<Vec<usize>>> = (0..=max_n).map(|n| ordered_selections(n, true)).collect();
    let results = par_map(&graphs, ncpu(), |g| check_graph(&scratch.path, g, &sels[g.n], "ex"));
    let mut sampled = 0;
    for (g, r) in graphs.iter().zip(results) {
        ctx.eval_n(r.evals);
        for h in &r.nt {
            ctx.nontrivial(*h);
        }
        if !r.nt.is_empty() && sampled < 4 && g.n >= 4 && (ctx.samples_len() < 2 || hash_of(g) % 37 == 0) {
            sampled += 1;
            ctx.sample(10, || json!({"graph": g_json(g, &[]), "selections_checked": sels[g.n].len()}));
        }
        if let Some(i) = r.inconclusive {
            ctx.inconclusive(i);
        }
        if let Some((f, case)) = r.fail {
            ctx.check_case("graph", Err(f), || case);
        }
    }
    // random larger graphs
    let cases = ctx.tier.pick(300, 5000);
    ctx.run_prop(
        "random",
        rand_graph_strategy(),
        cases,
        |rg| g_json(&rg.g, &rg.roots),
        |rg| {
            let r = check_graph(&scratch.path, &rg.g, std::slice::from_ref(&rg.roots), "rnd");
            ctx.eval_n(r.evals);
            ctx.class("random:graphs");
            if rg.g.dangling.is_some() {
                ctx.class("random:dangling");
            }
            if !rg.g.dup.is_empty() {
                ctx.class("random:duplicate-dependency-entries");
            }
            for h in &r.nt {
                ctx.nontrivial(*h);
                ctx.sample(14, || g_json(&rg.g, &rg.roots));
            }
            if let Some(i) = r.inconclusive {
                return Err(Fail::new("harness", i));
            }
            match r.fail {
                Some((f, _)) => Err(f),
                None => Ok(()),
            }
        },
    );
}

pub fn replay(ctx: &Ctx, _sub: &str, case: &Value) {
    let (g, roots) = g_from_json(case);
    let scratch = Scratch::new("c13r");
    let sels = if roots.is_empty() { ordered_selections(g.n, true) } else { vec![roots] };
    let r = check_graph(&scratch.path, &g, &sels, "rp");
    ctx.eval_n(r.evals);
    if let Some(i) = r.inconclusive {
        ctx.inconclusive(i);
    }
    if let Some((f, c)) = r.fail {
        ctx.check_case("graph", Err(f), || c);
    }
}
