//! C18 — inventory resolution returns a maximal matching artifact; checksums round-trip.

use crate::core::{Check, Ctx, Fail, Tier, hash_of, ncpu, par_map, pick_idx};
use libherokubuildpack::inventory::Inventory;
use libherokubuildpack::inventory::artifact::{Arch, Artifact, Os};
use libherokubuildpack::inventory::checksum::{Checksum, Digest};
use libherokubuildpack::inventory::version::ArtifactRequirement;
use proptest::prelude::*;
use serde::{Deserialize, Serialize};
use serde_json::{Value, json};
use sha2::{Sha256, Sha512};
use std::cmp::Ordering;

// ---------- small domains ----------

/// Partially ordered version: product order on pairs.
#[derive(Clone, Copy, Debug, PartialEq)]
pub struct Pair(u8, u8);
impl PartialOrd for Pair {
    fn partial_cmp(&self, o: &Self) -> Option<Ordering> {
        if self.0 == o.0 && self.1 == o.1 {
            Some(Ordering::Equal)
        } else if self.0 <= o.0 && self.1 <= o.1 {
            Some(Ordering::Less)
        } else if self.0 >= o.0 && self.1 >= o.1 {
            Some(Ordering::Greater)
        } else {
            None
        }
    }
}

/// Requirement = arbitrary predicate over the version index domain x metadata domain, as bit masks.
#[derive(Clone, Copy, Debug)]
pub struct MaskReq {
    vmask: u8,
    mmask: u8,
}

fn vidx_total(v: &u8) -> u8 {
    *v
}
fn vidx_pair(v: &Pair) -> u8 {
    v.0 * 2 + v.1
}
fn vidx_f32(v: &f32) -> u8 {
    if v.is_nan() { 3 } else { *v as u8 }
}

impl ArtifactRequirement<u8, u8> for MaskReq {
    fn satisfies_metadata(&self, m: &u8) -> bool {
        self.mmask >> m & 1 == 1
    }
    fn satisfies_version(&self, v: &u8) -> bool {
        self.vmask >> vidx_total(v) & 1 == 1
    }
}
impl ArtifactRequirement<Pair, u8> for MaskReq {
    fn satisfies_metadata(&self, m: &u8) -> bool {
        self.mmask >> m & 1 == 1
    }
    fn satisfies_version(&self, v: &Pair) -> bool {
        self.vmask >> vidx_pair(v) & 1 == 1
    }
}
impl ArtifactRequirement<f32, u8> for MaskReq {
    fn satisfies_metadata(&self, m: &u8) -> bool {
        self.mmask >> m & 1 == 1
    }
    fn satisfies_version(&self, v: &f32) -> bool {
        self.vmask >> vidx_f32(v) & 1 == 1
    }
}

/// artifact kind code: version index (2 bits) | os (1) | arch (1) | metadata (1)
fn decode(code: u8) -> (u8, Os, Arch, u8) {
    (
        code & 3,
        if code >> 2 & 1 == 0 { Os::Linux } else { Os::Darwin },
        if code >> 3 & 1 == 0 { Arch::Amd64 } else { Arch::Arm64 },
        code >> 4 & 1,
    )
}

fn mk<V>(code: u8, i: usize, ver: impl Fn(u8) -> V) -> Artifact<V, (), u8> {
    let (v, os, arch, m) = decode(code);
    Artifact {
        version: ver(v),
        os,
        arch,
        url: format!("u{i}"),
        checksum: "x:00".parse::<Checksum<()>>().expect("unit checksum"),
        metadata: m,
    }
}

#[derive(Clone, Copy, Debug, PartialEq, Eq, Hash)]
enum Dom {
    Total,
    Pair,
    F32,
}

fn ver_total(i: u8) -> u8 {
    i
}
fn ver_pair(i: u8) -> Pair {
    Pair(i / 2, i % 2)
}
fn ver_f32(i: u8) -> f32 {
    if i == 3 { f32::NAN } else { i as f32 }
}

/// validity predicate: `got` (index into the inventory or None) is acceptable
fn validate<V>(
    inv: &Inventory<V, (), u8>,
    got: Option<&Artifact<V, (), u8>>,
    os: Os,
    arch: Arch,
    matches: impl Fn(&Artifact<V, (), u8>) -> bool,
    exceeds: impl Fn(&V, &V) -> bool,
) -> Check {
    let matching: Vec<&Artifact<V, (), u8>> = inv
        .artifacts
        .iter()
        .filter(|a| a.os == os && a.arch == arch && matches(a))
        .collect();
    match got {
        None => {
            ensure!(matching.is_empty(), "C18:none-although-match-exists", "returned None but {} artifacts match", matching.len());
        }
        Some(g) => {
            let member = inv.artifacts.iter().any(|a| std::ptr::eq(a, g));
            ensure!(member, "C18:result-not-member", "returned artifact is not an element of the inventory");
            ensure!(g.os == os, "C18:result-wrong-os", "os differs");
            ensure!(g.arch == arch, "C18:result-wrong-arch", "arch differs");
            ensure!(matches(g), "C18:result-violates-requirement", "result does not satisfy the requirement");
            for m in &matching {
                ensure!(!exceeds(&m.version, &g.version), "C18:result-not-maximal", "another matching artifact ({}) has a strictly greater version than the result ({})", m.url, g.url);
            }
        }
    }
    Ok(())
}

fn check_small(dom: Dom, codes: &[u8], os: Os, arch: Arch, req: MaskReq) -> Check {
    match dom {
        Dom::Total => {
            let mut inv = Inventory::<u8, (), u8>::new();
            for (i, c) in codes.iter().enumerate() {
                inv.push(mk(*c, i, ver_total));
            }
            let m = |a: &Artifact<u8, (), u8>| req.vmask >> a.version & 1 == 1 && req.mmask >> a.metadata & 1 == 1;
            let got = inv.resolve(os, arch, &req);
            validate(&inv, got, os, arch, m, |a, b| a > b)?;
            // a total order is also a partial order: partial_resolve must satisfy the same predicate
            let got = inv.partial_resolve(os, arch, &req);
            validate(&inv, got, os, arch, m, |a, b| a > b)
        }
        Dom::Pair => {
            let mut inv = Inventory::<Pair, (), u8>::new();
            for (i, c) in codes.iter().enumerate() {
                inv.push(mk(*c, i, ver_pair));
            }
            let m = |a: &Artifact<Pair, (), u8>| req.vmask >> vidx_pair(&a.version) & 1 == 1 && req.mmask >> a.metadata & 1 == 1;
            let got = inv.partial_resolve(os, arch, &req);
            validate(&inv, got, os, arch, m, |a, b| a.partial_cmp(b) == Some(Ordering::Greater))
        }
        Dom::F32 => {
            let mut inv = Inventory::<f32, (), u8>::new();
            for (i, c) in codes.iter().enumerate() {
                inv.push(mk(*c, i, ver_f32));
            }
            let m = |a: &Artifact<f32, (), u8>| req.vmask >> vidx_f32(&a.version) & 1 == 1 && req.mmask >> a.metadata & 1 == 1;
            let got = inv.partial_resolve(os, arch, &req);
            validate(&inv, got, os, arch, m, |a, b| a.partial_cmp(b) == Some(Ordering::Greater))
        }
    }
}

fn small_json(dom: Dom, codes: &[u8], os: Os, arch: Arch, req: MaskReq) -> Value {
    let arts: Vec<Value> = codes
        .iter()
        .map(|c| {
            let (v, os, arch, m) = decode(*c);
            json!({"version_index": v, "os": os.to_string(), "arch": arch.to_string(), "metadata": m})
        })
        .collect();
    json!({"domain": format!("{dom:?}"), "codes": codes, "artifacts": arts, "os": os.to_string(), "arch": arch.to_string(), "vmask": req.vmask, "mmask": req.mmask})
}

/// all multisets (as sorted sequences) of size n over 0..k, then every rotation-free ordering is NOT enumerated:
/// the oracle is a validity predicate, and element order is varied by also checking the reversed sequence.
fn multisets(k: u8, n: usize) -> Vec<Vec<u8>> {
    fn rec(k: u8, n: usize, start: u8, cur: &mut Vec<u8>, out: &mut Vec<Vec<u8>>) {
        if cur.len() == n {
            out.push(cur.clone());
            return;
        }
        for c in start..k {
            cur.push(c);
            rec(k, n, c, cur, out);
            cur.pop();
        }
    }
    let mut out = vec![];
    rec(k, n, 0, &mut vec![], &mut out);
    out
}

struct SmallStats {
    evals: u64,
    nt: Vec<u64>,
    fail: Option<(Fail, Value)>,
    sample: Option<Value>,
}

fn run_small(ctx: &Ctx, dom: Dom, max_n: usize, full_queries: bool) {
    let mut invs: Vec<Vec<u8>> = vec![];
    for n in 0..=max_n {
        invs.extend(multisets(32, n));
    }
    ctx.class_n(&format!("inventories:{dom:?}"), invs.len() as u64);
    let res = par_map(&invs, ncpu(), |codes| {
        let mut st = SmallStats { evals: 0, nt: vec![], fail: None, sample: None };
        let rev: Vec<u8> = codes.iter().rev().copied().collect();
        for os in [Os::Linux, Os::Darwin] {
            for arch in [Arch::Amd64, Arch::Arm64] {
                for vmask in 0..16u8 {
                    if !full_queries && !(vmask == 15 || vmask.count_ones() == 2) {
                        continue;
                    }
                    for mmask in 0..4u8 {
                        let req = MaskReq { vmask, mmask };
                        for order in [codes, &rev] {
                            st.evals += 1;
                            if let Err(f) = check_small(dom, order, os, arch, req) {
                                if st.fail.is_none() {
                                    st.fail = Some((f, small_json(dom, order, os, arch, req)));
                                }
                            }
                        }
                        // non-trivial: >=2 matching artifacts with different (or incomparable) versions
                        let mut vers = std::collections::BTreeSet::new();
                        for c in codes {
                            let (v, o, a, m) = decode(*c);
                            if o == os && a == arch && vmask >> v & 1 == 1 && mmask >> m & 1 == 1 {
                                vers.insert(v);
                            }
                        }
                        if vers.len() >= 2 {
                            let h = hash_of(&(dom, codes, os.to_string(), arch.to_string(), vmask, mmask));
                            st.nt.push(h);
                            if st.sample.is_none() && h % 50_021 == 0 {
                                st.sample = Some(small_json(dom, codes, os, arch, req));
                            }
                        }
                    }
                }
            }
        }
        st
    });
    for st in res {
        ctx.eval_n(st.evals);
        for h in st.nt {
            ctx.nontrivial(h);
        }
        if let Some(s) = st.sample {
            ctx.sample(6, || s);
        }
        if let Some((f, case)) = st.fail {
            ctx.check_case("small", Err(f), || case);
        }
    }
}

// ---------- semver sampled + TOML round trip ----------

#[derive(Clone, Debug, PartialEq, Eq, Serialize, Deserialize)]
pub struct Meta {
    channel: String,
    lts: bool,
    tags: Vec<String>,
}

#[derive(Clone, Debug)]
pub struct SArt {
    ver: (u64, u64, u64, String),
    os: bool,
    arch: bool,
    url: String,
    sum: Vec<u8>,
    meta: Meta,
}

fn nasty_string() -> impl Strategy<Value = String> {
    proptest::collection::vec(
        prop_oneof![
            6 => prop_oneof![Just('a'), Just('/'), Just(':'), Just('.'), Just('-'), Just('0')],
            2 => prop_oneof![Just('"'), Just('\\'), Just('\''), Just('\n'), Just('\t'), Just('#'), Just('='), Just('['), Just('é'), Just('\u{1F600}'), Just('\u{7f}'), Just('\u{1}')],
            1 => any::<char>(),
        ],
        0..12,
    )
    .prop_map(|v| v.into_iter().collect())
}

fn sart_strategy() -> impl Strategy<Value = SArt> {
    (
        (0u64..3, 0u64..3, 0u64..3, prop_oneof![3 => Just(String::new()), 1 => Just("-rc.1".to_string()), 1 => Just("-alpha".to_string()), 1 => Just("+build5".to_string())]),
        proptest::bool::weighted(0.8),
        proptest::bool::weighted(0.8),
        nasty_string(),
        proptest::collection::vec(any::<u8>(), 32),
        (nasty_string(), any::<bool>(), proptest::collection::vec(nasty_string(), 0..3)),
    )
        .prop_map(|(ver, os, arch, url, sum, (channel, lts, tags))| SArt {
            ver,
            os,
            arch,
            url,
            sum,
            meta: Meta { channel, lts, tags },
        })
}

fn hexs(b: &[u8]) -> String {
    b.iter().map(|x| format!("{x:02x}")).collect()
}

fn sart_build(a: &SArt) -> Artifact<semver::Version, Sha256, Meta> {
    let v = semver::Version::parse(&format!("{}.{}.{}{}", a.ver.0, a.ver.1, a.ver.2, a.ver.3)).expect("semver");
    Artifact {
        version: v,
        os: if a.os { Os::Linux } else { Os::Darwin },
        arch: if a.arch { Arch::Amd64 } else { Arch::Arm64 },
        url: a.url.clone(),
        checksum: format!("sha256:{}", hexs(&a.sum)).parse().expect("checksum"),
        metadata: a.meta.clone(),
    }
}

fn sart_json(a: &SArt) -> Value {
    json!({"ver": [a.ver.0, a.ver.1, a.ver.2, a.ver.3], "os": a.os, "arch": a.arch, "url": a.url, "sum": hexs(&a.sum), "meta": {"channel": a.meta.channel, "lts": a.meta.lts, "tags": a.meta.tags}})
}

fn sart_from_json(v: &Value) -> SArt {
    let sum = v["sum"].as_str().unwrap();
    SArt {
        ver: (v["ver"][0].as_u64().unwrap(), v["ver"][1].as_u64().unwrap(), v["ver"][2].as_u64().unwrap(), v["ver"][3].as_str().unwrap().to_string()),
        os: v["os"].as_bool().unwrap(),
        arch: v["arch"].as_bool().unwrap(),
        url: v["url"].as_str().unwrap().to_string(),
        sum: (0..sum.len() / 2).map(|i| u8::from_str_radix(&sum[2 * i..2 * i + 2], 16).unwrap()).collect(),
        meta: Meta {
            channel: v["meta"]["channel"].as_str().unwrap().to_string(),
            lts: v["meta"]["lts"].as_bool().unwrap(),
            tags: v["meta"]["tags"].as_array().unwrap().iter().map(|t| t.as_str().unwrap().to_string()).collect(),
        },
    }
}

const REQS: [&str; 10] = ["*", "=1.1.1", ">=1.0.0", "<2.0.0", "^1", "~1.1", ">0.0.0, <2.2.0", "=0.0.0", ">=2.2.2", "^0.1"];

fn check_semver(ctx: &Ctx, arts: &[SArt], os: bool, arch: bool, req_i: usize) -> Check {
    ctx.eval();
    let mut inv = Inventory::<semver::Version, Sha256, Meta>::new();
    for a in arts {
        inv.push(sart_build(a));
    }
    let req = semver::VersionReq::parse(REQS[req_i]).expect("req");
    let os_v = if os { Os::Linux } else { Os::Darwin };
    let arch_v = if arch { Arch::Amd64 } else { Arch::Arm64 };
    let matching: Vec<&Artifact<_, _, _>> = inv.artifacts.iter().filter(|a| a.os == os_v && a.arch == arch_v && req.matches(&a.version)).collect();
    let distinct: std::collections::BTreeSet<String> = matching.iter().map(|a| a.version.to_string()).collect();
    if distinct.len() >= 2 {
        ctx.class("semver:>=2 distinct matching versions");
        ctx.nontrivial(hash_of(&serde_json::to_string(&json!([arts.iter().map(sart_json).collect::<Vec<_>>(), os, arch, req_i])).unwrap()));
    }
    for (name, got) in [("resolve", inv.resolve(os_v, arch_v, &req)), ("partial_resolve", inv.partial_resolve(os_v, arch_v, &req))] {
        match got {
            None => ensure!(matching.is_empty(), "C18:none-although-match-exists", "{name}: None but {} match", matching.len()),
            Some(g) => {
                ensure!(inv.artifacts.iter().any(|a| std::ptr::eq(a, g)), "C18:result-not-member", "{name}");
                ensure!(g.os == os_v && g.arch == arch_v, "C18:result-wrong-platform", "{name}: {:?}/{:?}", g.os, g.arch);
                ensure!(req.matches(&g.version), "C18:result-violates-requirement", "{name}: {} does not match {}", g.version, req);
                for m in &matching {
                    ensure!(m.version <= g.version, "C18:result-not-maximal", "{name}: {} matches and exceeds result {}", m.version, g.version);
                }
            }
        }
    }
    // TOML round trip
    let text = inv.to_string();
    let back: Inventory<semver::Version, Sha256, Meta> = match text.parse() {
        Ok(b) => b,
        Err(e) => return Err(Fail::new("C18:rendered-inventory-does-not-parse", format!("{e}; text: {text}"))),
    };
    ensure!(back.artifacts.len() == inv.artifacts.len(), "C18:roundtrip-length", "{} vs {}", back.artifacts.len(), inv.artifacts.len());
    // "gives equal artifacts": as a multiset — a renderer may list them in any (e.g. sorted) order
    let mut rest: Vec<_> = back.artifacts.iter().collect();
    for a in inv.artifacts.iter() {
        match rest.iter().position(|b| *b == a) {
            Some(i) => {
                rest.swap_remove(i);
            }
            None => return Err(Fail::new("C18:roundtrip-artifact-differs", format!("{a:?} is not among the artifacts read back"))),
        }
    }
    if !arts.is_empty() {
        ctx.class("roundtrip:non-empty");
    }
    // the same round trip with the unit digest `()`, which admits any algorithm name and digest length: mixed-case names,
    // odd lengths
    let names = ["SHA256", "Md5", "x", "sha256"];
    let mut inv_u = Inventory::<semver::Version, (), Meta>::new();
    for (i, a) in arts.iter().enumerate() {
        let b = sart_build(a);
        let sum = &a.sum[..a.sum.len().min(1 + i % 5)];
        let checksum = match format!("{}:{}", names[i % names.len()], hexs(sum)).parse() {
            Ok(c) => c,
            Err(_) => continue,
        };
        inv_u.push(Artifact { version: b.version, os: b.os, arch: b.arch, url: b.url, checksum, metadata: b.metadata });
    }
    let text_u = inv_u.to_string();
    let back_u: Inventory<semver::Version, (), Meta> = match text_u.parse() {
        Ok(b) => b,
        Err(e) => return Err(Fail::new("C18:rendered-inventory-does-not-parse", format!("unit digest: {e}; text: {text_u}"))),
    };
    ensure!(back_u.artifacts.len() == inv_u.artifacts.len(), "C18:roundtrip-length", "unit digest: {} vs {}", back_u.artifacts.len(), inv_u.artifacts.len());
    let mut rest: Vec<_> = back_u.artifacts.iter().collect();
    for a in inv_u.artifacts.iter() {
        match rest.iter().position(|b| *b == a) {
            Some(i) => {
                rest.swap_remove(i);
            }
            None => return Err(Fail::new("C18:roundtrip-artifact-differs", format!("unit digest: {a:?} is not among the artifacts read back"))),
        }
    }
    Ok(())
}

// ---------- checksums ----------

struct Tiny;
impl Digest for Tiny {
    fn name_compatible(name: &str) -> bool {
        name == "t"
    }
    fn length_compatible(len: usize) -> bool {
        len == 1
    }
}

fn is_hex(c: char) -> bool {
    c.is_ascii_digit() || ('a'..='f').contains(&c) || ('A'..='F').contains(&c)
}

/// reference: `<name>:<hex>` with exactly 2*size hex digits
fn checksum_should_accept(s: &str, name: &str, size: usize) -> bool {
    match s.find(':') {
        None => false,
        Some(i) => {
            let (n, h) = (&s[..i], &s[i + 1..]);
            n == name && h.chars().count() == 2 * size && h.chars().all(is_hex)
        }
    }
}

fn check_checksum<D: Digest>(s: &str, name: &str, size: usize) -> Check {
    let got = s.parse::<Checksum<D>>();
    let want = checksum_should_accept(s, name, size);
    // upper-case hex digits: whether "<hex>" admits them is not decided (a lower-case-only decoder is fine); such a
    // string may be accepted or rejected, but if accepted it must still decode to the right bytes
    let upper_only_issue = want && s[s.find(':').map(|i| i + 1).unwrap_or(0)..].chars().any(|c| c.is_ascii_uppercase());
    if got.is_ok() != want && !(upper_only_issue && got.is_err()) {
        let sig = if want { "C18:checksum-rejects-valid" } else { "C18:checksum-accepts-invalid" };
        return Err(Fail::new(sig, format!("{s:?} for {name}/{size}: accepted={} expected={want}", got.is_ok())));
    }
    if let Ok(c) = got {
        let hexpart = &s[s.find(':').unwrap() + 1..];
        ensure!(c.name == name, "C18:checksum-name", "{:?}", c.name);
        ensure!(hexs(&c.value) == hexpart.to_ascii_lowercase(), "C18:checksum-value", "{s:?} -> {:?}", c.value);
        let ser = serde_json::to_value(&c).map_err(|e| Fail::new("C18:checksum-serialize", e.to_string()))?;
        let ser_s = ser.as_str().unwrap_or("").to_string();
        let back = ser_s.parse::<Checksum<D>>();
        ensure!(back.as_ref().ok() == Some(&c), "C18:checksum-roundtrip", "{s:?} -> {ser_s:?} -> ok={}", back.is_ok());
        let de: Result<Checksum<D>, _> = serde_json::from_value(json!(s));
        ensure!(de.as_ref().ok() == Some(&c), "C18:checksum-deserialize-differs", "{s:?}");
    } else {
        let de: Result<Checksum<D>, _> = serde_json::from_value(json!(s));
        ensure!(de.is_err(), "C18:checksum-deserialize-accepts-invalid", "{s:?}");
    }
    let _ = upper_only_issue;
    Ok(())
}

fn run_checksums(ctx: &Ctx) {
    // (a) exhaustive over a tiny digest: all strings up to length 6 over {t, a, F, g, :, 0, 9}
    let alpha = ['t', 'a', 'F', 'g', ':', '0', '9'];
    let max = ctx.tier.pick(6, 7);
    let strings = crate::props::c09::all_strings(&alpha, max);
    for s in &strings {
        ctx.eval();
        let want = checksum_should_accept(s, "t", 1);
        if want {
            ctx.class("checksum:tiny-accepted");
        }
        // non-trivial: one deletion away from flipping the verdict
        let chars: Vec<char> = s.chars().collect();
        let near = (0..chars.len()).any(|i| {
            let mut d = chars.clone();
            d.remove(i);
            checksum_should_accept(&d.iter().collect::<String>(), "t", 1) != want
        });
        if near {
            ctx.nontrivial(hash_of(&("tiny", s)));
        }
        if !ctx.check_case("checksum-tiny", check_checksum::<Tiny>(s, "t", 1), || json!({"digest": "tiny", "s": s})) {
            break;
        }
    }
    // (b) real digests around the valid lengths
    let prefixes: [Option<&str>; 13] = [Some("sha256"), Some("sha512"), Some("sha25"), Some("SHA256"), Some(""), None, Some("sha256 "), Some(" sha256"), Some("sha+256"), Some("sha0256"), Some("sha+512"), Some("sha0512"), Some("sha-256")];
    for (dname, size) in [("sha256", 32usize), ("sha512", 64)] {
        for pre in prefixes {
            for len in (2 * size - 2)..=(2 * size + 2) {
                // compositions: all 'a', all 'F', digits, one bad char at start/middle/end, embedded colon, trailing newline
                let base: Vec<String> = vec!["a".repeat(len), "F".repeat(len), "0123456789abcdefABCDEF".chars().cycle().take(len).collect()];
                let mut variants = base.clone();
                for b in &base[..1] {
                    for pos in [0, len / 2, len - 1] {
                        for bad in ['g', ':', ' ', 'é', '-', '+'] {
                            let mut c: Vec<char> = b.chars().collect();
                            c[pos] = bad;
                            variants.push(c.iter().collect());
                        }
                    }
                    variants.push(format!("{b}\n"));
                    variants.push(format!("0x{}", &b[2..]));
                }
                for v in variants {
                    let s = match pre {
                        Some(p) => format!("{p}:{v}"),
                        None => v.clone(),
                    };
                    ctx.eval();
                    ctx.class("checksum:sha-variants");
                    ctx.nontrivial(hash_of(&(dname, &s)));
                    let r = if dname == "sha256" { check_checksum::<Sha256>(&s, dname, size) } else { check_checksum::<Sha512>(&s, dname, size) };
                    if r.is_ok() && checksum_should_accept(&s, dname, size) {
                        ctx.class("checksum:sha-accepted");
                    }
                    ctx.check_case("checksum-sha", r, || json!({"digest": dname, "s": s}));
                }
            }
        }
    }
}

pub fn run(ctx: &Ctx) {
    ctx.set_rule("exhaustive: every inventory (multiset, checked in both element orders) of 0..N artifacts over 4 versions x 2 os x 2 arch x 2 metadata values (N<=4 quick / N<=5 thorough with all 256 queries; N=5 quick / N=6 thorough with 112 queries) for a total order (resolve and partial_resolve), the product partial order on pairs and f32 with NaN (partial_resolve); queries = os x arch x arbitrary version predicate (bit mask) x metadata predicate. sampled: semver inventories 0..12 artifacts x VersionReq + TOML round trip; checksums: all strings <=6 over {t,a,F,g,:,0,9} for a 1-byte test digest, and sha256/sha512 strings with 8 prefixes x lengths 2n-2..2n+2 x 22 compositions. Oracle: validity predicate (member, matches, no strictly greater match; None iff no match), round-trip equality, hand-written checksum grammar. Non-trivial: >=2 matching artifacts with different versions; checksum strings one deletion from a verdict flip; distinct = hash of (domain, inventory, query).");
    ctx.assume("requirements are pure predicates; versions form a partial order (transitive)");
    ctx.set_exhaustive(true);
    ctx.extra("exhaustive_subspace", json!("small-domain inventories up to the stated size; semver/TOML part is sampled"));
    for (_p, v) in ctx.regress_files() {
        replay(ctx, v["sub"].as_str().unwrap_or(""), &v["case"]);
    }
    let thorough = ctx.tier == Tier::Thorough;
    for dom in [Dom::Total, Dom::Pair, Dom::F32] {
        run_small(ctx, dom, if thorough { 5 } else { 4 }, true);
    }
    // deeper, reduced query set
    for dom in [Dom::Total, Dom::Pair, Dom::F32] {
        // one size deeper with a reduced query set (28 version/metadata predicates instead of 64)
        let invs = multisets(32, if thorough { 6 } else { 5 });
        run_small_list(ctx, dom, invs);
    }
    let cases = ctx.tier.pick(3_000, 100_000);
    ctx.run_prop(
        "semver",
        (proptest::collection::vec(sart_strategy(), 0..13), proptest::bool::weighted(0.8), proptest::bool::weighted(0.8), any::<u16>()),
        cases,
        |(a, os, arch, r)| json!({"artifacts": a.iter().map(sart_json).collect::<Vec<_>>(), "os": os, "arch": arch, "req": pick_idx(*r, REQS.len())}),
        |(a, os, arch, r)| {
            let ri = pick_idx(*r, REQS.len());
            if ctx.samples_len() < 8 && a.len() >= 2 {
                ctx.sample(8, || json!({"artifacts": a.iter().map(sart_json).collect::<Vec<_>>(), "os": os, "arch": arch, "req": REQS[ri]}));
            }
            check_semver(ctx, a, *os, *arch, ri)
        },
    );
    run_checksums(ctx);
}

fn run_small_list(ctx: &Ctx, dom: Dom, invs: Vec<Vec<u8>>) {
    ctx.class_n(&format!("inventories:{dom:?}"), invs.len() as u64);
    let res = par_map(&invs, ncpu(), |codes| {
        let mut evals = 0u64;
        let mut nt = vec![];
        let mut fail = None;
        let rev: Vec<u8> = codes.iter().rev().copied().collect();
        for os in [Os::Linux, Os::Darwin] {
            for arch in [Arch::Amd64, Arch::Arm64] {
                for vmask in [15u8, 3, 5, 6, 9, 10, 12] {
                    for mmask in 0..4u8 {
                        let req = MaskReq { vmask, mmask };
                        for order in [codes, &rev] {
                            evals += 1;
                            if let Err(f) = check_small(dom, order, os, arch, req) {
                                if fail.is_none() {
                                    fail = Some((f, small_json(dom, order, os, arch, req)));
                                }
                            }
                        }
                        let mut vers = std::collections::BTreeSet::new();
                        for c in codes {
                            let (v, o, a, m) = decode(*c);
                            if o == os && a == arch && vmask >> v & 1 == 1 && mmask >> m & 1 == 1 {
                                vers.insert(v);
                            }
                        }
                        if vers.len() >= 2 {
                            nt.push(hash_of(&(dom, codes, os.to_string(), arch.to_string(), vmask, mmask)));
                        }
                    }
                }
            }
        }
        (evals, nt, fail)
    });
    for (evals, nt, fail) in res {
        ctx.eval_n(evals);
        for h in nt {
            ctx.nontrivial(h);
        }
        if let Some((f, case)) = fail {
            ctx.check_case("small", Err(f), || case);
        }
    }
}

pub fn replay(ctx: &Ctx, sub: &str, case: &Value) {
    ctx.eval();
    if sub == "small" {
        let dom = match case["domain"].as_str().unwrap() {
            "Total" => Dom::Total,
            "Pair" => Dom::Pair,
            _ => Dom::F32,
        };
        let codes: Vec<u8> = case["codes"].as_array().unwrap().iter().map(|c| c.as_u64().unwrap() as u8).collect();
        let os = if case["os"] == "linux" { Os::Linux } else { Os::Darwin };
        let arch = if case["arch"] == "amd64" { Arch::Amd64 } else { Arch::Arm64 };
        let req = MaskReq { vmask: case["vmask"].as_u64().unwrap() as u8, mmask: case["mmask"].as_u64().unwrap() as u8 };
        ctx.check_case(sub, check_small(dom, &codes, os, arch, req), || case.clone());
    } else if sub == "semver" {
        let arts: Vec<SArt> = case["artifacts"].as_array().unwrap().iter().map(sart_from_json).collect();
        ctx.check_case(sub, check_semver(ctx, &arts, case["os"].as_bool().unwrap(), case["arch"].as_bool().unwrap(), case["req"].as_u64().unwrap() as usize), || case.clone());
    } else {
        let s = case["s"].as_str().unwrap();
        let r = match case["digest"].as_str().unwrap() {
            "tiny" => check_checksum::<Tiny>(s, "t", 1),
            "sha256" => check_checksum::<Sha256>(s, "sha256", 32),
            _ => check_checksum::<Sha512>(s, "sha512", 64),
        };
        ctx.check_case(sub, r, || case.clone());
    }
}
