//! C20 — identical inputs give byte-identical layer and phase outputs.

use crate::bprun::{self, BpRun, VALID_BUILDPACK_TOML};
use crate::core::{Check, Ctx, Fail, Scratch, hash_of};
use crate::fsutil::{self, Snapshot};
use crate::props::{c01, c02, c07};
use crate::tv::{TV, meta_table};
use proptest::prelude::*;
use serde_json::{Value, json};
use std::ffi::OsString;
use std::path::Path;

#[derive(Clone, Debug)]
pub struct BuildScript {
    layer_ops: Vec<c01::Op>,
    trait_ops: Vec<c02::Op>,
    launch: Option<Vec<c07::LOp>>,
    store: Option<TV>,
    build_sboms: Vec<u8>,
    launch_sboms: Vec<u8>,
}

#[derive(Clone, Debug)]
pub enum Scenario {
    Detect(Vec<c07::BOp>),
    Builds(Vec<BuildScript>),
}

fn build_script_strategy() -> impl Strategy<Value = BuildScript> {
    (
        // (one class: an exec.d write that fails on a missing source file, tolerated by the buildpack, followed by a successful one)
        prop_oneof![1 => Just(vec![]), 3 => c01::history_strategy_for_bp(3), 1 => c01::group_with_failed_execd_strategy(3)],
        prop_oneof![2 => Just(vec![]), 2 => c02::history_strategy_for_bp()],
        proptest::option::weighted(0.7, c07::launch_strategy()),
        proptest::option::weighted(0.6, meta_table(3)),
        proptest::collection::vec(0u8..3, 0..3),
        proptest::collection::vec(0u8..3, 0..3),
    )
        .prop_map(|(layer_ops, trait_ops, launch, store, build_sboms, launch_sboms)| BuildScript { layer_ops, trait_ops, launch, store, build_sboms, launch_sboms })
}

fn scenario_strategy() -> impl Strategy<Value = Scenario> {
    prop_oneof![
        1 => c07::plan_strategy().prop_map(Scenario::Detect),
        5 => proptest::collection::vec(build_script_strategy(), 1..3).prop_map(Scenario::Builds),
    ]
}

fn build_script_json(b: &BuildScript) -> Value {
    let sb = |v: &Vec<u8>| json!(v.iter().map(|f| json!([f, format!("{{\"format\":{f}}}")])).collect::<Vec<_>>());
    json!({
        "kind": "ok",
        "layer_ops": if b.layer_ops.is_empty() { Value::Null } else { json!({"names": 3, "history": c01::history_json(&b.layer_ops)}) },
        "trait_ops": if b.trait_ops.is_empty() { Value::Null } else { c02::history_json(&b.trait_ops) },
        "launch": b.launch.as_ref().map(|l| c07::launch_ops_json(l)),
        "store": b.store.as_ref().map(TV::to_json),
        "build_sboms": sb(&b.build_sboms),
        "launch_sboms": sb(&b.launch_sboms),
    })
}

fn scenario_json(s: &Scenario) -> Value {
    match s {
        Scenario::Detect(p) => json!({"detect": c07::plan_ops_json(p)}),
        Scenario::Builds(b) => json!({"builds": b.iter().map(build_script_json).collect::<Vec<_>>()}),
    }
}

/// `data` with the run's root rewritten to a placeholder
fn rewrite_root(root: &Path, data: &[u8]) -> Vec<u8> {
    let needle = root.as_os_str().as_encoded_bytes();
    if needle.is_empty() || !data.windows(needle.len()).any(|w| w == needle) {
        return data.to_vec();
    }
    let mut out = vec![];
    let mut i = 0;
    while i < data.len() {
        if data[i..].starts_with(needle) {
            out.extend_from_slice(b"<ROOT>");
            i += needle.len();
        } else {
            out.push(data[i]);
            i += 1;
        }
    }
    out
}

/// relative snapshot with the run's root rewritten to a placeholder in every file content and link target
fn normalised(root: &Path, sub: &Path) -> Snapshot {
    let mut s = fsutil::snapshot(sub);
    for e in s.values_mut() {
        e.data = rewrite_root(root, &e.data);
    }
    s
}

const RUNS: usize = 4;

fn check(ctx: &Ctx, scratch: &Path, scn_json: &Value) -> Check {
    ctx.eval();
    let (r, classes) = check_pure(scratch, scn_json);
    for c in classes {
        ctx.class(c);
    }
    r
}

fn check_pure(scratch: &Path, scn_json: &Value) -> (Check, Vec<&'static str>) {
    let mut classes: Vec<&'static str> = vec![];
    let tags = ["a", "second-run-with-a-longer-name", "3", "run four"];
    let mut results: Vec<Vec<(i32, Snapshot)>> = vec![];
    let mut roots = vec![];
    for tag in tags.iter().take(RUNS) {
        let root = scratch.join(format!("{tag}-{:08x}-{}", hash_of(&scn_json.to_string()) as u32, crate::core::uniq()));
        let _ = fsutil::force_remove(&root);
        std::fs::create_dir_all(&root).unwrap();
        let root = std::fs::canonicalize(&root).unwrap();
        let d = bprun::setup_dirs(&root);
        // ambient state that is no input of the buildpack API differs between the runs: PWD absent / the physical spelling /
        // a symbolic-link alias of the working directory / a stale value naming another directory
        let alias = root.join("app-alias");
        std::os::unix::fs::symlink(&d.app, &alias).unwrap();
        let ambient: Vec<(OsString, OsString)> = match results.len() {
            0 => vec![],
            1 => vec![("PWD".into(), d.app.clone().into_os_string())],
            2 => vec![("PWD".into(), alias.clone().into_os_string())],
            _ => vec![("PWD".into(), root.clone().into_os_string())],
        };
        std::fs::write(d.buildpack.join("buildpack.toml"), VALID_BUILDPACK_TOML).unwrap();
        std::fs::create_dir_all(d.platform.join("env")).unwrap();
        let env = bprun::full_env(&d);
        let mut steps = vec![];
        if let Some(p) = scn_json.get("detect") {
            let script = json!({"detect": {"pass_plan": p}, "use_app_dir": true});
            let args: Vec<OsString> = vec![d.platform.clone().into(), d.plan.clone().into()];
            let out = bprun::run(&BpRun { root: &root, exe_name: "detect", args, env: env.clone(), script: &script, extra_env: ambient.clone() });
            let mut snap = Snapshot::new();
            if let Ok(b) = std::fs::read(&d.plan) {
                snap.insert(b"plan.toml".to_vec(), fsutil::Entry { kind: fsutil::Kind::File, mode: 0, data: rewrite_root(&root, &b) });
            }
            steps.push((out.code.unwrap_or(-1), snap));
        } else {
            for b in scn_json["builds"].as_array().unwrap() {
                std::fs::write(&d.plan, "").unwrap();
                let script = json!({"build": b, "use_app_dir": true});
                let args: Vec<OsString> = vec![d.layers.clone().into(), d.platform.clone().into(), d.plan.clone().into()];
                let out = bprun::run(&BpRun { root: &root, exe_name: "build", args, env: env.clone(), script: &script, extra_env: ambient.clone() });
                steps.push((out.code.unwrap_or(-1), normalised(&root, &d.layers)));
            }
        }
        results.push(steps);
        roots.push(root);
    }
    let r = (|| -> Check {
        for i in 1..results.len() {
            for (step, (a, b)) in results[0].iter().zip(results[i].iter()).enumerate() {
                ensure!(a.0 == b.0, "C20:exit-code-differs-between-runs", "step {step}: run 0 exit {}, run {i} exit {}", a.0, b.0);
                let d = fsutil::diff(&a.1, &b.1, 6);
                if !d.is_empty() {
                    let sig = if d.iter().any(|l| l.contains(".toml")) { "C20:toml-output-differs-between-runs" } else if d.iter().any(|l| l.contains("/env")) { "C20:env-files-differ-between-runs" } else if d.iter().any(|l| l.contains("exec.d")) { "C20:exec.d-differs-between-runs" } else { "C20:outputs-differ-between-runs" };
                    return Err(Fail::new(sig, format!("step {step}, run 0 vs run {i}: {d:?}")));
                }
            }
        }
        // guard against vacuity: successful builds must have produced something
        if results[0].iter().all(|(c, s)| *c == 0 && s.len() <= 1) && scn_json.get("detect").is_none() {
            classes.push("outputs-empty");
        }
        if results[0].iter().any(|(c, _)| *c != 0) {
            classes.push("some-phase-exited-non-zero");
        }
        Ok(())
    })();
    for root in roots {
        let _ = fsutil::force_remove(&root);
    }
    (r, classes)
}

fn nontrivial(s: &Scenario) -> bool {
    match s {
        Scenario::Detect(p) => p.len() >= 2,
        Scenario::Builds(bs) => bs.iter().any(|b| {
            let multi_write = b.layer_ops.iter().any(|o| match o {
                c01::Op::WriteEnv { entries, .. } => entries.len() >= 2,
                c01::Op::WriteExecD { progs, .. } => progs.len() >= 2,
                c01::Op::WriteSboms { sboms, .. } => sboms.len() >= 2,
                _ => false,
            });
            let launch_multi = b.launch.as_ref().map(|l| l.len() >= 2).unwrap_or(false);
            let store_multi = matches!(&b.store, Some(TV::Table(t)) if t.len() >= 2);
            multi_write || launch_multi || store_multi || !b.trait_ops.is_empty()
        }),
    }
}

pub fn run(ctx: &Ctx) {
    ctx.set_rule("scenarios from the C01 generator (layer-operation scripts executed inside build through cached_layer/uncached_layer and LayerRef writes), the C02 generator (scripted Layer implementations through handle_layer) and the C05/C07 generators (detect with generated build plans; build results with generated launch configuration, store tables, build/launch SBOMs), 1-2 consecutive builds over the same layers directory; each scenario executed in 4 fresh processes (independent hash seeds, different start times) under 4 different temp roots of different lengths and with different ambient state that is no input of the buildpack API (PWD absent / the physical working directory / a symbolic-link alias of it / a stale value); the scripted buildpack also writes one output derived from context.app_dir (metadata of a build-plan require in detect, a store.toml key in build). Oracle: the relative lstat snapshots (bytes, modes, link targets) of <layers> after every build, and the build-plan file, are pairwise identical after rewriting the temp root to a placeholder; exit codes agree. Non-trivial: some output is produced from a collection with >= 2 elements (env entries, exec.d programs, SBOM formats, launch operations, store keys, or any trait-API result); distinct = hash of the scenario.");
    ctx.assume("detection of an iteration-order leak is probabilistic: with 4 processes and >= 2 elements the miss probability per scenario is <= 1/8");
    let scratch = Scratch::new("c20");
    for (_p, v) in ctx.regress_files() {
        ctx.check_case("regress", check(ctx, &scratch.path, &v["case"]), || v["case"].clone());
    }
    ctx.run_prop_par(
        "scenarios",
        scenario_strategy(),
        ctx.tier.pick(6000, 60_000),
        scenario_json,
        |s| {
            let (r, classes) = check_pure(&scratch.path, &scenario_json(s));
            (r, classes)
        },
        |s, classes| {
            ctx.eval();
            for c in classes {
                ctx.class(c);
            }
            if nontrivial(s) {
                ctx.class("nontrivial");
                ctx.nontrivial(hash_of(&scenario_json(s).to_string()));
                if (ctx.samples_len() < 2 || hash_of(&scenario_json(s).to_string()) % 61 == 0) {
                    ctx.sample(3, || scenario_json(s));
                }
            }
            ctx.class(match s {
                Scenario::Detect(_) => "scenario:detect",
                Scenario::Builds(_) => "scenario:builds",
            });
        },
    );
    ctx.extra("processes_per_scenario", json!(RUNS));
}

pub fn replay(ctx: &Ctx, _sub: &str, case: &Value) {
    let scratch = Scratch::new("c20r");
    ctx.check_case("replay", check(ctx, &scratch.path, case), || case.clone());
}
