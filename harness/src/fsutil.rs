//! lstat-based snapshots and diffs; never follows symlinks.

use std::collections::BTreeMap;
use std::ffi::OsString;
use std::os::unix::ffi::{OsStrExt, OsStringExt};
use std::os::unix::fs::{MetadataExt, PermissionsExt};
use std::path::{Path, PathBuf};

#[derive(Clone, Debug, PartialEq, Eq, Hash)]
pub enum Kind {
    Dir,
    File,
    Symlink,
    Other,
}

#[derive(Clone, Debug, PartialEq, Eq, Hash)]
pub struct Entry {
    pub kind: Kind,
    pub mode: u32,
    /// file bytes, or symlink target bytes
    pub data: Vec<u8>,
}

pub type Snapshot = BTreeMap<Vec<u8>, Entry>;

fn rel_bytes(root: &Path, p: &Path) -> Vec<u8> {
    p.strip_prefix(root)
        .unwrap_or(p)
        .as_os_str()
        .as_bytes()
        .to_vec()
}

/// Snapshot of everything below `root` (root itself is recorded as "" when it exists).
/// Must be called with enough privilege to read (the harness runs as root).
pub fn snapshot(root: &Path) -> Snapshot {
    let mut out = Snapshot::new();
    snap_rec(root, root, &mut out);
    out
}

fn snap_rec(root: &Path, p: &Path, out: &mut Snapshot) {
    let Ok(md) = std::fs::symlink_metadata(p) else {
        return;
    };
    let mode = md.mode() & 0o7777;
    let ft = md.file_type();
    if ft.is_symlink() {
        let target = std::fs::read_link(p)
            .map(|t| t.into_os_string().into_vec())
            .unwrap_or_default();
        out.insert(
            rel_bytes(root, p),
            Entry {
                kind: Kind::Symlink,
                mode: 0,
                data: target,
            },
        );
    } else if ft.is_dir() {
        out.insert(
            rel_bytes(root, p),
            Entry {
                kind: Kind::Dir,
                mode,
                data: vec![],
            },
        );
        if let Ok(rd) = std::fs::read_dir(p) {
            let mut names: Vec<OsString> = rd.filter_map(|e| e.ok()).map(|e| e.file_name()).collect();
            names.sort();
            for n in names {
                snap_rec(root, &p.join(n), out);
            }
        }
    } else if ft.is_file() {
        let data = std::fs::read(p).unwrap_or_else(|e| format!("<unreadable {e}>").into_bytes());
        out.insert(
            rel_bytes(root, p),
            Entry {
                kind: Kind::File,
                mode,
                data,
            },
        );
    } else {
        out.insert(
            rel_bytes(root, p),
            Entry {
                kind: Kind::Other,
                mode,
                data: vec![],
            },
        );
    }
}

pub fn show_path(b: &[u8]) -> String {
    String::from_utf8_lossy(b).into_owned()
}

fn show_entry(e: &Entry) -> String {
    let d = if e.data.len() > 60 {
        format!("{}..({}B)", String::from_utf8_lossy(&e.data[..60]), e.data.len())
    } else {
        String::from_utf8_lossy(&e.data).into_owned()
    };
    format!("{:?} mode={:o} data={:?}", e.kind, e.mode, d)
}

/// Human-readable differences, at most `limit`.
pub fn diff(a: &Snapshot, b: &Snapshot, limit: usize) -> Vec<String> {
    let mut out = vec![];
    for (k, va) in a {
        match b.get(k) {
            None => out.push(format!("removed: {:?} ({})", show_path(k), show_entry(va))),
            Some(vb) if va != vb => out.push(format!(
                "changed: {:?}: {} -> {}",
                show_path(k),
                show_entry(va),
                show_entry(vb)
            )),
            _ => {}
        }
        if out.len() >= limit {
            return out;
        }
    }
    for (k, vb) in b {
        if !a.contains_key(k) {
            out.push(format!("added: {:?} ({})", show_path(k), show_entry(vb)));
            if out.len() >= limit {
                return out;
            }
        }
    }
    out
}

/// Remove whatever is at `p` (never following symlinks), fixing permissions on the way.
pub fn force_remove(p: &Path) -> std::io::Result<()> {
    let md = match std::fs::symlink_metadata(p) {
        Ok(md) => md,
        Err(e) if e.kind() == std::io::ErrorKind::NotFound => return Ok(()),
        Err(e) => return Err(e),
    };
    if md.file_type().is_dir() {
        let _ = std::fs::set_permissions(p, std::fs::Permissions::from_mode(0o700));
        for e in std::fs::read_dir(p)? {
            force_remove(&e?.path())?;
        }
        std::fs::remove_dir(p)
    } else {
        std::fs::remove_file(p)
    }
}

pub fn path_from_bytes(b: &[u8]) -> PathBuf {
    PathBuf::from(OsString::from_vec(b.to_vec()))
}

/// Copy a tree without following links, preserving modes (used for prepared states).
pub fn copy_tree(src: &Path, dst: &Path) -> std::io::Result<()> {
    let md = std::fs::symlink_metadata(src)?;
    let ft = md.file_type();
    if ft.is_symlink() {
        std::os::unix::fs::symlink(std::fs::read_link(src)?, dst)
    } else if ft.is_dir() {
        std::fs::create_dir(dst)?;
        let mut names: Vec<OsString> = std::fs::read_dir(src)?
            .filter_map(|e| e.ok())
            .map(|e| e.file_name())
            .collect();
        names.sort();
        for n in names {
            copy_tree(&src.join(&n), &dst.join(&n))?;
        }
        std::fs::set_permissions(dst, std::fs::Permissions::from_mode(md.mode() & 0o7777))
    } else {
        std::fs::write(dst, std::fs::read(src)?)?;
        std::fs::set_permissions(dst, std::fs::Permissions::from_mode(md.mode() & 0o7777))
    }
}
