#![allow(unused_parens)]
#[macro_use]
pub mod core;
pub mod bp;
pub mod bprun;
pub mod envmodel;
pub mod fsutil;
pub mod histworker;
pub mod layermodel;
pub mod props;
pub mod trrun;
pub mod tv;
pub mod worker;
