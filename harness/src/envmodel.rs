//! Reference model of CNB layer environment semantics, written from the spec text.
//! Deliberately structured differently from libcnb's layer_env.rs: an explicit entry list,
//! per-variable folds, no BTreeMap keyed by (behaviour, name).

use crate::core::{bytes_to_json, json_to_bytes};
use libcnb::Env;
use libcnb::layer_env::{LayerEnv, ModificationBehavior, Scope};
use serde_json::{Value, json};
use std::collections::BTreeMap;
use std::ffi::OsString;
use std::os::unix::ffi::{OsStrExt, OsStringExt};

#[derive(Clone, Debug, PartialEq, Eq, Hash, PartialOrd, Ord)]
pub enum Sc {
    All,
    Build,
    Launch,
    Process(String),
}

#[derive(Clone, Copy, Debug, PartialEq, Eq, Hash, PartialOrd, Ord)]
pub enum Beh {
    Append,
    Default,
    Delim,
    Override,
    Prepend,
}

pub const BEHS: [Beh; 5] = [Beh::Append, Beh::Default, Beh::Delim, Beh::Override, Beh::Prepend];

impl Beh {
    pub fn suffix(self) -> &'static str {
        match self {
            Beh::Append => "append",
            Beh::Default => "default",
            Beh::Delim => "delim",
            Beh::Override => "override",
            Beh::Prepend => "prepend",
        }
    }
    pub fn from_suffix(s: &[u8]) -> Option<Beh> {
        BEHS.iter().copied().find(|b| b.suffix().as_bytes() == s)
    }
    pub fn to_libcnb(self) -> ModificationBehavior {
        match self {
            Beh::Append => ModificationBehavior::Append,
            Beh::Default => ModificationBehavior::Default,
            Beh::Delim => ModificationBehavior::Delimiter,
            Beh::Override => ModificationBehavior::Override,
            Beh::Prepend => ModificationBehavior::Prepend,
        }
    }
}

impl Sc {
    pub fn to_libcnb(&self) -> Scope {
        match self {
            Sc::All => Scope::All,
            Sc::Build => Scope::Build,
            Sc::Launch => Scope::Launch,
            Sc::Process(p) => Scope::Process(p.clone()),
        }
    }
    /// directory (relative to the layer dir) the spec prescribes for this scope
    pub fn dir(&self) -> String {
        match self {
            Sc::All => "env".into(),
            Sc::Build => "env.build".into(),
            Sc::Launch => "env.launch".into(),
            Sc::Process(p) => format!("env.launch/{p}"),
        }
    }
    pub fn to_json(&self) -> Value {
        match self {
            Sc::All => json!("all"),
            Sc::Build => json!("build"),
            Sc::Launch => json!("launch"),
            Sc::Process(p) => json!({"process": p}),
        }
    }
    pub fn from_json(v: &Value) -> Sc {
        match v {
            Value::String(s) if s == "all" => Sc::All,
            Value::String(s) if s == "build" => Sc::Build,
            Value::String(s) if s == "launch" => Sc::Launch,
            Value::Object(o) => Sc::Process(o["process"].as_str().unwrap().to_string()),
            _ => panic!("bad scope json {v}"),
        }
    }
}

#[derive(Clone, Debug, PartialEq, Eq, Hash, PartialOrd, Ord)]
pub struct EnvEntry {
    pub scope: Sc,
    pub beh: Beh,
    pub name: Vec<u8>,
    pub value: Vec<u8>,
}

impl EnvEntry {
    pub fn to_json(&self) -> Value {
        json!({"scope": self.scope.to_json(), "beh": self.beh.suffix(), "name": bytes_to_json(&self.name), "value": bytes_to_json(&self.value)})
    }
    pub fn from_json(v: &Value) -> EnvEntry {
        EnvEntry {
            scope: Sc::from_json(&v["scope"]),
            beh: Beh::from_suffix(v["beh"].as_str().unwrap().as_bytes()).unwrap(),
            name: json_to_bytes(&v["name"]),
            value: json_to_bytes(&v["value"]),
        }
    }
}

pub fn entries_to_json(e: &[EnvEntry]) -> Value {
    Value::Array(e.iter().map(EnvEntry::to_json).collect())
}
pub fn entries_from_json(v: &Value) -> Vec<EnvEntry> {
    v.as_array().unwrap().iter().map(EnvEntry::from_json).collect()
}

pub type EnvMap = BTreeMap<Vec<u8>, Vec<u8>>;

pub fn envmap_to_json(m: &EnvMap) -> Value {
    Value::Array(
        m.iter()
            .map(|(k, v)| json!([bytes_to_json(k), bytes_to_json(v)]))
            .collect(),
    )
}
pub fn envmap_from_json(v: &Value) -> EnvMap {
    v.as_array()
        .unwrap()
        .iter()
        .map(|kv| (json_to_bytes(&kv[0]), json_to_bytes(&kv[1])))
        .collect()
}

pub fn os(b: &[u8]) -> OsString {
    OsString::from_vec(b.to_vec())
}

/// Build the libcnb value through the public API, in list order (duplicates: last wins, as documented).
pub fn to_layer_env(entries: &[EnvEntry]) -> LayerEnv {
    let mut le = LayerEnv::new();
    for e in entries {
        le.insert(e.scope.to_libcnb(), e.beh.to_libcnb(), os(&e.name), os(&e.value));
    }
    le
}

pub fn to_env(m: &EnvMap) -> Env {
    let mut env = Env::new();
    for (k, v) in m {
        env.insert(os(k), os(v));
    }
    env
}

pub fn from_env(env: &Env) -> EnvMap {
    env.iter()
        .map(|(k, v)| (k.as_bytes().to_vec(), v.as_bytes().to_vec()))
        .collect()
}

/// Last insert wins for the same (scope, behaviour, name).
pub fn dedupe(entries: &[EnvEntry]) -> Vec<EnvEntry> {
    let mut out: Vec<EnvEntry> = vec![];
    for e in entries {
        if let Some(prev) = out
            .iter_mut()
            .find(|p| p.scope == e.scope && p.beh == e.beh && p.name == e.name)
        {
            prev.value = e.value.clone();
        } else {
            out.push(e.clone());
        }
    }
    out
}

/// One delta (= one env directory) applied per the spec's "Environment Variable Modification Rules".
fn apply_delta(delta: &[&EnvEntry], env: &mut EnvMap) {
    let mut names: Vec<&Vec<u8>> = delta.iter().map(|e| &e.name).collect();
    names.sort();
    names.dedup();
    for name in names {
        let find = |b: Beh| -> Option<&Vec<u8>> {
            delta
                .iter()
                .find(|e| e.beh == b && &e.name == name)
                .map(|e| &e.value)
        };
        let delim: Vec<u8> = find(Beh::Delim).cloned().unwrap_or_default();
        // lifecycle processes the files of one directory in file-name order:
        // NAME.append, NAME.default, NAME.delim (no effect itself), NAME.override, NAME.prepend
        if let Some(v) = find(Beh::Append) {
            let cur = env.get(name).cloned();
            let new = match cur {
                Some(c) if !c.is_empty() => [c, delim.clone(), v.clone()].concat(),
                _ => v.clone(),
            };
            env.insert(name.clone(), new);
        }
        if let Some(v) = find(Beh::Default) {
            if !env.contains_key(name) {
                env.insert(name.clone(), v.clone());
            }
        }
        if let Some(v) = find(Beh::Override) {
            env.insert(name.clone(), v.clone());
        }
        if let Some(v) = find(Beh::Prepend) {
            let cur = env.get(name).cloned();
            let new = match cur {
                Some(c) if !c.is_empty() => [v.clone(), delim.clone(), c].concat(),
                _ => v.clone(),
            };
            env.insert(name.clone(), new);
        }
    }
}

/// Implicit layer-path entry: (scope Build|Launch, variable, absolute path bytes)
pub type Implicit = (Sc, &'static str, Vec<u8>);

/// Reference: apply explicit entries (+ implicit layer paths) for `query` to `env0`.
pub fn ref_apply(entries: &[EnvEntry], implicit: &[Implicit], query: &Sc, env0: &EnvMap) -> EnvMap {
    let entries = dedupe(entries);
    let mut env = env0.clone();
    let all: Vec<&EnvEntry> = entries.iter().filter(|e| e.scope == Sc::All).collect();
    apply_delta(&all, &mut env);
    if *query != Sc::All {
        let own: Vec<&EnvEntry> = entries.iter().filter(|e| &e.scope == query).collect();
        apply_delta(&own, &mut env);
        // implicit entries: prepend with the OS path-list separator, after the explicit ones
        for (sc, var, path) in implicit {
            if sc == query {
                let name = var.as_bytes().to_vec();
                let new = match env.get(&name) {
                    Some(c) if !c.is_empty() => [path.clone(), b":".to_vec(), c.clone()].concat(),
                    _ => path.clone(),
                };
                env.insert(name, new);
            }
        }
    }
    env
}

/// The files the spec prescribes for an explicit entry list: relative path -> raw bytes.
pub fn render(entries: &[EnvEntry]) -> BTreeMap<Vec<u8>, Vec<u8>> {
    let mut out = BTreeMap::new();
    for e in dedupe(entries) {
        let mut p = e.scope.dir().into_bytes();
        p.push(b'/');
        p.extend_from_slice(&e.name);
        p.push(b'.');
        p.extend_from_slice(e.beh.suffix().as_bytes());
        out.insert(p, e.value.clone());
    }
    out
}
