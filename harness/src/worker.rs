//! Implementation of vworker modes.

use serde_json::Value;

pub fn main(mode: &str, args: &[String]) -> i32 {
    match mode {
        "execd" => execd(args),
        other => {
            eprintln!("vworker: unknown mode {other:?}");
            2
        }
    }
}

/// args[0] = JSON array of [key, value] pairs; writes the exec.d output to fd 3 through libcnb.
fn execd(args: &[String]) -> i32 {
    let v: Value = serde_json::from_str(&args[0]).expect("json");
    let mut map = std::collections::HashMap::new();
    for kv in v.as_array().unwrap() {
        let k: libcnb_data::exec_d::ExecDProgramOutputKey = kv[0].as_str().unwrap().parse().expect("key");
        map.insert(k, kv[1].as_str().unwrap().to_string());
    }
    libcnb::exec_d::write_exec_d_program_output(libcnb_data::exec_d::ExecDProgramOutput::new(map));
    0
}
