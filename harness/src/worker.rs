//! Implementation of vworker modes.

use serde_json::Value;

pub fn main(mode: &str, args: &[String]) -> i32 {
    match mode {
        "execd" => execd(args),
        "c11" => c11(args),
        "tr" => test_runner(args),
        "c12" => c12(args),
        "hist" => hist(args),
        other => {
            eprintln!("vworker: unknown mode {other:?}");
            2
        }
    }
}

/// args[0] = JSON array of [key, value] pairs; writes the exec.d output to fd 3 through libcnb.
fn execd(args: &[String]) -> i32 {
    let v: Value = serde_json::from_str(&args[0]).expect("json");
    let mut map = std::collections::HashMap::new();
    for kv in v.as_array().unwrap() {
        let k: libcnb_data::exec_d::ExecDProgramOutputKey = kv[0].as_str().unwrap().parse().expect("key");
        map.insert(k, kv[1].as_str().unwrap().to_string());
    }
    // both public construction paths: the map constructor, and (odd number of pairs) the documented conversion from an
    // iterator of pairs that `write_exec_d_program_output(impl Into<ExecDProgramOutput>)` invites
    if v.as_array().unwrap().len() % 2 == 1 {
        let pairs: Vec<(libcnb_data::exec_d::ExecDProgramOutputKey, String)> = v.as_array().unwrap().iter().map(|kv| (kv[0].as_str().unwrap().parse().expect("key"), kv[1].as_str().unwrap().to_string())).collect();
        libcnb::exec_d::write_exec_d_program_output(pairs);
    } else {
        libcnb::exec_d::write_exec_d_program_output(libcnb_data::exec_d::ExecDProgramOutput::new(map));
    }
    0
}

/// C11: args = [root, route, drop|keep]; runs one deletion route and prints {"ok":..,"err":..,"dropped":..}
#[allow(deprecated)]
fn c11(args: &[String]) -> i32 {
    use crate::layermodel::{HB, HErr, make_context};
    use libcnb::build::BuildContext;
    use libcnb::data::layer::LayerName;
    use libcnb::data::layer_content_metadata::LayerTypes;
    use libcnb::generic::GenericMetadata;
    use libcnb::layer::{CachedLayerDefinition, ExistingLayerStrategy, InvalidMetadataAction, Layer, LayerData, LayerResult, LayerResultBuilder, MetadataMigration, RestoredLayerAction, UncachedLayerDefinition};
    let root = std::path::PathBuf::from(&args[0]);
    let mut dropped = false;
    if args[2] == "drop" {
        unsafe {
            let ok = libc::setgroups(0, std::ptr::null()) == 0 && libc::setgid(65534) == 0 && libc::setuid(65534) == 0;
            dropped = ok && libc::geteuid() == 65534;
        }
        if !dropped {
            println!("{}", serde_json::json!({"ok": false, "err": "setuid failed", "dropped": false}));
            return 0;
        }
    }
    struct Recreate;
    impl Layer for Recreate {
        type Buildpack = HB;
        type Metadata = GenericMetadata;
        fn types(&self) -> LayerTypes {
            LayerTypes { build: true, launch: false, cache: true }
        }
        fn create(&mut self, _c: &BuildContext<HB>, _p: &std::path::Path) -> Result<LayerResult<GenericMetadata>, HErr> {
            LayerResultBuilder::new(None).build()
        }
        fn existing_layer_strategy(&mut self, _c: &BuildContext<HB>, _d: &LayerData<GenericMetadata>) -> Result<ExistingLayerStrategy, HErr> {
            Ok(ExistingLayerStrategy::Recreate)
        }
        fn migrate_incompatible_metadata(&mut self, _c: &BuildContext<HB>, _m: &GenericMetadata) -> Result<MetadataMigration<GenericMetadata>, HErr> {
            Ok(MetadataMigration::RecreateLayer)
        }
    }
    // the directories exist already; make_context only (re)creates missing ones
    let bc = make_context(&root);
    let name: LayerName = "lay".parse().unwrap();
    let res: Result<(), String> = match args[1].as_str() {
        "Uncached" => bc.uncached_layer(&name, UncachedLayerDefinition { build: true, launch: false }).map(|_| ()).map_err(|e| format!("{e:?}")),
        "CachedDelete" => bc
            .cached_layer(
                &name,
                CachedLayerDefinition { build: true, launch: false, invalid_metadata_action: &|_| InvalidMetadataAction::DeleteLayer, restored_layer_action: &|_: &GenericMetadata, _| RestoredLayerAction::DeleteLayer },
            )
            .map(|_| ())
            .map_err(|e| format!("{e:?}")),
        _ => bc.handle_layer(name, Recreate).map(|_| ()).map_err(|e| format!("{e:?}")),
    };
    println!("{}", serde_json::json!({"ok": res.is_ok(), "err": res.err(), "dropped": dropped}));
    0
}

/// libcnb-test scenario interpreter: args[0] = scenario JSON. Panics propagate (exit 101), as in a real test.
fn test_runner(args: &[String]) -> i32 {
    use libcnb_test::{BuildConfig, BuildpackReference, ContainerConfig, PackResult, TestContext, TestRunner};
    let v: Value = serde_json::from_str(&args[0]).expect("scenario json");

    /// order in which the configuration setters are called: a permutation derived from the scenario's `call_order`
    /// value (0 = the canonical order); every order must describe the same configuration
    fn permutation(n: usize, seed: u64) -> Vec<usize> {
        let mut idx: Vec<usize> = (0..n).collect();
        if seed == 0 {
            return idx;
        }
        let mut x = seed.wrapping_mul(0x9E37_79B9_7F4A_7C15) | 1;
        for i in (1..n).rev() {
            x ^= x << 13;
            x ^= x >> 7;
            x ^= x << 17;
            idx.swap(i, (x % (i as u64 + 1)) as usize);
        }
        idx
    }
    fn build_cfg(c: &Value) -> BuildConfig {
        let order = c["call_order"].as_u64().unwrap_or(0);
        let app_dir = c["app_dir"].as_str().unwrap().to_string();
        // odd orders: the config starts out for another fixture (a shared default config) and gets its app_dir later
        let late_app_dir = order % 2 == 1;
        let mut cfg = BuildConfig::new(c["builder"].as_str().unwrap(), if late_app_dir { "fixtures/some-other-app" } else { app_dir.as_str() });
        let mut bps: Vec<BuildpackReference> = c["buildpacks"].as_array().unwrap().iter().map(|b| BuildpackReference::Other(b.as_str().unwrap().to_string())).collect();
        match c["crate_buildpack"].as_str() {
            Some("current") => bps.insert(0, BuildpackReference::CurrentCrate),
            Some("workspace") => bps.insert(0, BuildpackReference::WorkspaceBuildpack("verif/current".parse().unwrap())),
            _ => {}
        }
        let tag = c["pre_tag"].as_u64().unwrap_or(0);
        for step in permutation(6, order) {
            match step {
                0 => {
                    if c["crate_buildpack"].is_string() {
                        // the musl target is not installed in this sandbox
                        cfg.target_triple("x86_64-unknown-linux-gnu");
                    }
                }
                1 => {
                    cfg.buildpacks(bps.clone());
                }
                2 => {
                    // pairs keep their relative order (a repeated key: the last value wins); every third order uses envs()
                    let pairs: Vec<(String, String)> = c["env"].as_array().unwrap().iter().map(|kv| (kv[0].as_str().unwrap().to_string(), kv[1].as_str().unwrap().to_string())).collect();
                    if order % 3 == 2 {
                        cfg.envs(pairs);
                    } else {
                        for (k, v) in pairs {
                            cfg.env(k, v);
                        }
                    }
                }
                3 => {
                    if c["expect_failure"] == true {
                        cfg.expected_pack_result(PackResult::Failure);
                    }
                }
                4 => {
                    if c["preprocessor"] == true {
                        cfg.app_dir_preprocessor(move |p| {
                            let name = if tag == 0 { "preprocessed.txt".to_string() } else { format!("preprocessed-{tag}.txt") };
                            std::fs::write(p.join(name), b"added by the preprocessor").unwrap();
                            let _ = std::fs::remove_file(p.join("remove-me.txt"));
                            // make the vendored read-only file writable and extend it in place
                            let ro = p.join("vendor/readonly.sh");
                            if ro.exists() {
                                std::fs::set_permissions(&ro, std::os::unix::fs::PermissionsExt::from_mode(0o755)).unwrap();
                                let mut f = std::fs::OpenOptions::new().append(true).open(&ro).unwrap();
                                std::io::Write::write_all(&mut f, b" + preprocessed").unwrap();
                            }
                        });
                    }
                }
                _ => {
                    if late_app_dir {
                        cfg.app_dir(app_dir.clone());
                    }
                }
            }
        }
        cfg
    }
    fn container_cfg(c: &Value) -> ContainerConfig {
        let order = c["call_order"].as_u64().unwrap_or(0);
        let mut cfg = ContainerConfig::new();
        for step in permutation(5, order) {
            match step {
                0 => {
                    if let Some(e) = c["entrypoint"].as_str() {
                        if order % 4 == 3 {
                            // set twice: the later call replaces the earlier value
                            cfg.entrypoint("decoy-entrypoint");
                        }
                        cfg.entrypoint(e);
                    }
                }
                1 => {
                    if let Some(cmd) = c["command"].as_array() {
                        cfg.command(cmd.iter().map(|x| x.as_str().unwrap().to_string()).collect::<Vec<_>>());
                    }
                }
                2 => {
                    let pairs: Vec<(String, String)> = c["env"].as_array().unwrap().iter().map(|kv| (kv[0].as_str().unwrap().to_string(), kv[1].as_str().unwrap().to_string())).collect();
                    if order % 3 == 2 {
                        cfg.envs(pairs);
                    } else {
                        for (k, v) in pairs {
                            cfg.env(k, v);
                        }
                    }
                }
                3 => {
                    for p in c["ports"].as_array().unwrap() {
                        cfg.expose_port(p.as_u64().unwrap() as u16);
                    }
                }
                _ => {
                    for m in c["mounts"].as_array().unwrap() {
                        cfg.bind_mount(m[0].as_str().unwrap(), m[1].as_str().unwrap());
                    }
                }
            }
        }
        cfg
    }
    fn run_steps(ctx: TestContext, steps: &[Value]) {
        let mut ctx = Some(ctx);
        for s in steps {
            let c = ctx.as_ref().expect("context consumed by rebuild");
            if s == "panic" {
                panic!("scripted panic in test closure");
            } else if s == "download_sbom" {
                c.download_sbom_files(|_files| ());
            } else if let Some(cmd) = s.get("run_shell") {
                let _ = c.run_shell_command(cmd.as_str().unwrap());
            } else if let Some(sc) = s.get("start_container") {
                c.start_container(container_cfg(&sc["cfg"]), |cc| {
                    for i in sc["inner"].as_array().unwrap() {
                        if i == "panic" {
                            panic!("scripted panic in container closure");
                        } else if i == "logs_now" {
                            let _ = cc.logs_now();
                        } else if i == "logs_wait" {
                            let _ = cc.logs_wait();
                        } else if let Some(p) = i.get("port") {
                            let _ = cc.address_for_port(p.as_u64().unwrap() as u16);
                        } else if let Some(cmd) = i.get("shell_exec") {
                            let _ = cc.shell_exec(cmd.as_str().unwrap());
                        }
                    }
                });
            } else if let Some(rb) = s.get("rebuild") {
                let c = ctx.take().unwrap();
                c.rebuild(build_cfg(&rb["cfg"]), |inner| run_steps(inner, rb["steps"].as_array().unwrap()));
            }
        }
    }
    let b = &v["build"];
    TestRunner::default().build(build_cfg(&b["cfg"]), |ctx| run_steps(ctx, b["steps"].as_array().unwrap()));
    0
}

/// C12: args = [root, "struct"|"trait", ops json, names]; runs the operation(s) on the prepared state under the shim
fn c12(args: &[String]) -> i32 {
    use crate::layermodel::make_context;
    use crate::props::{c01, c02};
    let root = std::path::PathBuf::from(&args[0]);
    let ops: Value = serde_json::from_str(&args[2]).expect("ops json");
    let n: usize = args[3].parse().unwrap_or(3);
    let names: Vec<&str> = c01::NAMES[..n.min(5)].to_vec();
    let bc = make_context(&root);
    let side = root.join("side");
    let r = if args[1] == "struct" { c01::apply_ops(&bc, &c01::history_from_json(&ops), &names, &side) } else { c02::apply_ops_named(&bc, &c02::history_from_json(&ops), &side, &names) };
    println!("{}", serde_json::json!({"ok": r.is_ok(), "err": r.err()}));
    0
}

/// History server for C01 / C02: args = [c01|c02, number of names, scratch dir]; one history (JSON) per stdin line, one
/// outcome (JSON) per stdout line. Runs on the main thread, so runaway recursion in the code under test kills only this process.
fn hist(args: &[String]) -> i32 {
    use crate::props::{c01, c02};
    use std::io::{BufRead, Write};
    let n: usize = args[1].parse().unwrap_or(3);
    let scratch = std::path::PathBuf::from(&args[2]);
    let stdin = std::io::stdin();
    let mut out = std::io::stdout();
    for line in stdin.lock().lines() {
        let Ok(line) = line else { break };
        let v: Value = match serde_json::from_str(&line) {
            Ok(v) => v,
            Err(e) => {
                let _ = writeln!(out, "{}", serde_json::json!({"fail": {"sig": "harness:bad-history-json", "msg": e.to_string()}}));
                continue;
            }
        };
        let (steps, nontrivial, classes, fail) = if args[0] == "c01" {
            let names: Vec<&str> = if n == 2 { vec![c01::NAMES[0], c01::NAMES[1]] } else { c01::NAMES[..n.min(5)].to_vec() };
            let o = c01::run_history(&scratch, &c01::history_from_json(&v), &names);
            (o.steps, o.nontrivial, o.classes, o.fail)
        } else {
            let o = c02::run_history(&scratch, &c02::history_from_json(&v));
            (o.steps, o.nontrivial, o.classes, o.fail)
        };
        let reply = serde_json::json!({"steps": steps, "nontrivial": nontrivial, "classes": classes, "fail": fail.map(|f| serde_json::json!({"sig": f.sig, "msg": f.msg}))});
        if writeln!(out, "{reply}").and_then(|_| out.flush()).is_err() {
            break;
        }
    }
    0
}
