//! Implementation of vworker modes.

use serde_json::Value;

pub fn main(mode: &str, args: &[String]) -> i32 {
    match mode {
        "execd" => execd(args),
        "c11" => c11(args),
        other => {
            eprintln!("vworker: unknown mode {other:?}");
            2
        }
    }
}

/// args[0] = JSON array of [key, value] pairs; writes the exec.d output to fd 3 through libcnb.
fn execd(args: &[String]) -> i32 {
    let v: Value = serde_json::from_str(&args[0]).expect("json");
    let mut map = std::collections::HashMap::new();
    for kv in v.as_array().unwrap() {
        let k: libcnb_data::exec_d::ExecDProgramOutputKey = kv[0].as_str().unwrap().parse().expect("key");
        map.insert(k, kv[1].as_str().unwrap().to_string());
    }
    libcnb::exec_d::write_exec_d_program_output(libcnb_data::exec_d::ExecDProgramOutput::new(map));
    0
}

/// C11: args = [root, route, drop|keep]; runs one deletion route and prints {"ok":..,"err":..,"dropped":..}
#[allow(deprecated)]
fn c11(args: &[String]) -> i32 {
    use crate::layermodel::{HB, HErr, make_context};
    use libcnb::build::BuildContext;
    use libcnb::data::layer::LayerName;
    use libcnb::data::layer_content_metadata::LayerTypes;
    use libcnb::generic::GenericMetadata;
    use libcnb::layer::{CachedLayerDefinition, ExistingLayerStrategy, InvalidMetadataAction, Layer, LayerData, LayerResult, LayerResultBuilder, MetadataMigration, RestoredLayerAction, UncachedLayerDefinition};
    let root = std::path::PathBuf::from(&args[0]);
    let mut dropped = false;
    if args[2] == "drop" {
        unsafe {
            let ok = libc::setgroups(0, std::ptr::null()) == 0 && libc::setgid(65534) == 0 && libc::setuid(65534) == 0;
            dropped = ok && libc::geteuid() == 65534;
        }
        if !dropped {
            println!("{}", serde_json::json!({"ok": false, "err": "setuid failed", "dropped": false}));
            return 0;
        }
    }
    struct Recreate;
    impl Layer for Recreate {
        type Buildpack = HB;
        type Metadata = GenericMetadata;
        fn types(&self) -> LayerTypes {
            LayerTypes { build: true, launch: false, cache: true }
        }
        fn create(&mut self, _c: &BuildContext<HB>, _p: &std::path::Path) -> Result<LayerResult<GenericMetadata>, HErr> {
            LayerResultBuilder::new(None).build()
        }
        fn existing_layer_strategy(&mut self, _c: &BuildContext<HB>, _d: &LayerData<GenericMetadata>) -> Result<ExistingLayerStrategy, HErr> {
            Ok(ExistingLayerStrategy::Recreate)
        }
        fn migrate_incompatible_metadata(&mut self, _c: &BuildContext<HB>, _m: &GenericMetadata) -> Result<MetadataMigration<GenericMetadata>, HErr> {
            Ok(MetadataMigration::RecreateLayer)
        }
    }
    // the directories exist already; make_context only (re)creates missing ones
    let bc = make_context(&root);
    let name: LayerName = "lay".parse().unwrap();
    let res: Result<(), String> = match args[1].as_str() {
        "Uncached" => bc.uncached_layer(&name, UncachedLayerDefinition { build: true, launch: false }).map(|_| ()).map_err(|e| format!("{e:?}")),
        "CachedDelete" => bc
            .cached_layer(
                &name,
                CachedLayerDefinition { build: true, launch: false, invalid_metadata_action: &|_| InvalidMetadataAction::DeleteLayer, restored_layer_action: &|_: &GenericMetadata, _| RestoredLayerAction::DeleteLayer },
            )
            .map(|_| ())
            .map_err(|e| format!("{e:?}")),
        _ => bc.handle_layer(name, Recreate).map(|_| ()).map_err(|e| format!("{e:?}")),
    };
    println!("{}", serde_json::json!({"ok": res.is_ok(), "err": res.err(), "dropped": dropped}));
    0
}
