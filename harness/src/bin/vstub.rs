//! Stand-in `docker` / `pack` (multi-call through the symlink name). Records every invocation (exact argv bytes) to
//! $VSTUB_LOG as JSON lines, keeps a state directory ($VSTUB_STATE) of images / volumes / containers, and fails the
//! n-th invocation when $VSTUB_FAIL_AT = n (exit 1, no effect). `--force` removals of missing names succeed.

use std::io::Write;
use std::os::unix::ffi::OsStrExt;
use std::path::{Path, PathBuf};

fn latin1(b: &[u8]) -> String {
    b.iter().map(|c| *c as char).collect()
}

fn next_counter(state: &Path) -> u64 {
    use std::os::unix::io::AsRawFd;
    let p = state.join("counter");
    let f = std::fs::OpenOptions::new().create(true).read(true).write(true).truncate(false).open(&p).expect("counter");
    unsafe {
        libc::flock(f.as_raw_fd(), libc::LOCK_EX);
    }
    let cur: u64 = std::fs::read_to_string(&p).ok().and_then(|s| s.trim().parse().ok()).unwrap_or(0);
    let n = cur + 1;
    std::fs::write(&p, n.to_string()).expect("counter write");
    n
}

fn touch(p: PathBuf) {
    if let Some(d) = p.parent() {
        let _ = std::fs::create_dir_all(d);
    }
    let _ = std::fs::write(p, b"");
}

fn listing(dir: &Path) -> serde_json::Value {
    let mut out = serde_json::Map::new();
    fn rec(base: &Path, d: &Path, out: &mut serde_json::Map<String, serde_json::Value>) {
        if let Ok(rd) = std::fs::read_dir(d) {
            for e in rd.flatten() {
                let p = e.path();
                if p.is_dir() {
                    rec(base, &p, out);
                } else {
                    let rel = p.strip_prefix(base).unwrap().to_string_lossy().to_string();
                    out.insert(rel, serde_json::Value::String(latin1(&std::fs::read(&p).unwrap_or_default())));
                }
            }
        }
    }
    rec(dir, dir, &mut out);
    serde_json::Value::Object(out)
}

fn main() {
    let args: Vec<std::ffi::OsString> = std::env::args_os().collect();
    let prog = Path::new(&args[0]).file_name().map(|n| n.to_string_lossy().to_string()).unwrap_or_default();
    let state = PathBuf::from(std::env::var_os("VSTUB_STATE").expect("VSTUB_STATE"));
    let log = PathBuf::from(std::env::var_os("VSTUB_LOG").expect("VSTUB_LOG"));
    let n = next_counter(&state);
    let fail_at: Option<u64> = std::env::var("VSTUB_FAIL_AT").ok().and_then(|s| s.parse().ok());
    let raw: Vec<String> = args[1..].iter().map(|s| latin1(s.as_bytes())).collect();
    // docker's management-command spellings are the same commands: `container rm` = `rm`, `image rm` = `rmi`, ...
    let mut a = raw.clone();
    if prog == "docker" && a.len() >= 2 {
        match (a[0].as_str(), a[1].as_str()) {
            ("container", "rm" | "remove") => {
                a.remove(0);
                a[0] = "rm".into();
            }
            ("container", "run" | "exec" | "logs" | "port" | "stop" | "kill" | "wait" | "inspect") => {
                a.remove(0);
            }
            ("image", "rm" | "remove") => {
                a.remove(0);
                a[0] = "rmi".into();
            }
            _ => {}
        }
    }
    let mut failed = fail_at == Some(n);
    let mut extra = serde_json::Map::new();
    let sub = a.first().map(String::as_str).unwrap_or("");
    let is_flag = |s: &String| s.starts_with('-');
    let mut stdout = String::new();
    if prog == "pack" && sub == "build" {
        let ordinal = {
            let p = state.join("pack_builds");
            let c: u64 = std::fs::read_to_string(&p).ok().and_then(|s| s.trim().parse().ok()).unwrap_or(0) + 1;
            let _ = std::fs::write(&p, c.to_string());
            c
        };
        let scripted_fail = std::env::var("VSTUB_PACK_FAIL_SEQ").ok().map(|s| s.split(',').any(|x| x.trim().parse::<u64>().ok() == Some(ordinal))).unwrap_or(false);
        // the app path as pack's grammar sees it (--path <dir>, --path=<dir>, -p <dir>)
        let path_arg: Option<String> = vharness::props::c17::pack_build_path(&a[1..]);
        if let Some(p) = path_arg.as_ref() {
            {
                let bytes: Vec<u8> = p.chars().map(|c| c as u8).collect();
                let path = PathBuf::from(<std::ffi::OsStr as OsStrExt>::from_bytes(&bytes));
                extra.insert("path_listing".into(), listing(&path));
            }
        }
        if !failed {
            // cache volumes come into existence even when the build itself fails
            for (i, t) in a.iter().enumerate() {
                if t == "--cache" {
                    if let Some(v) = a.get(i + 1) {
                        if let Some(name) = v.split(';').find_map(|kv| kv.strip_prefix("name=")) {
                            touch(state.join("volumes").join(name));
                        }
                    }
                }
            }
            if scripted_fail {
                failed = true;
                extra.insert("scripted_pack_failure".into(), true.into());
            } else if let Some(img) = a.get(1) {
                touch(state.join("images").join(img));
            }
        }
        stdout.push_str("pack build output\n");
        if scripted_fail {
            // a failing pack build relays whatever the buildpacks and the docker client printed
            stdout.push_str(&std::env::var("VSTUB_FAIL_MSG").unwrap_or_default());
            stdout.push('\n');
        }
    } else if prog == "pack" && sub == "sbom" {
        if !failed {
            if let Some(i) = a.iter().position(|t| t == "--output-dir") {
                if let Some(p) = a.get(i + 1) {
                    let d = PathBuf::from(p).join("layers/sbom/launch/x");
                    let _ = std::fs::create_dir_all(&d);
                    let _ = std::fs::write(d.join("sbom.cdx.json"), b"{}");
                }
            }
        }
    } else if prog == "docker" && sub == "run" {
        // options end at the image token (an existing image, or the generated naming scheme)
        let img_idx = a.iter().enumerate().skip(1).find(|(i, t)| (state.join("images").join(t).exists() || t.starts_with("libcnbtest_")) && a.get(i.wrapping_sub(1)).map(|p| p != "--name").unwrap_or(true)).map(|(i, _)| i).unwrap_or(a.len());
        let opts = &a[1..img_idx];
        let name = opts.iter().position(|t| t == "--name").and_then(|i| opts.get(i + 1)).cloned();
        let detach = opts.iter().any(|t| t == "--detach" || t == "-d");
        let rm = opts.iter().any(|t| t == "--rm");
        if !failed {
            if let Some(name) = &name {
                if detach || !rm {
                    touch(state.join("containers").join(name));
                }
            }
            stdout.push_str("0123456789abcdef\n");
        }
    } else if prog == "docker" && sub == "rm" {
        if !failed {
            for t in a[1..].iter().filter(|t| !is_flag(t)) {
                let _ = std::fs::remove_file(state.join("containers").join(t));
            }
        }
    } else if prog == "docker" && sub == "rmi" {
        if !failed {
            for t in a[1..].iter().filter(|t| !is_flag(t)) {
                let _ = std::fs::remove_file(state.join("images").join(t));
            }
        }
    } else if prog == "docker" && sub == "volume" {
        if !failed {
            for t in a[2..].iter().filter(|t| !is_flag(t)) {
                let _ = std::fs::remove_file(state.join("volumes").join(t));
            }
        }
    } else if prog == "docker" && sub == "port" {
        stdout.push_str("127.0.0.1:49153\n");
    } else if prog == "docker" && (sub == "logs" || sub == "exec") {
        stdout.push_str("some output\n");
    }
    let rec = serde_json::json!({"n": n, "prog": prog, "argv": a, "argv_raw": raw, "failed": failed, "extra": extra});
    let mut f = std::fs::OpenOptions::new().create(true).append(true).open(&log).expect("log");
    let _ = writeln!(f, "{rec}");
    if failed && extra.get("scripted_pack_failure").is_some() {
        print!("{stdout}");
    }
    if failed {
        // exit code and message of an injected failure are part of the scenario (docker uses 125/126/127 for its own errors)
        let code: i32 = std::env::var("VSTUB_FAIL_CODE").ok().and_then(|s| s.parse().ok()).unwrap_or(1);
        let msg = std::env::var("VSTUB_FAIL_MSG").unwrap_or_else(|_| "vstub: injected failure".to_string());
        println!("{msg}");
        eprintln!("{msg}");
        if code < 0 {
            // die by a signal instead of exiting
            let _ = std::io::stdout().flush();
            unsafe {
                libc::kill(libc::getpid(), -code);
            }
            std::thread::sleep(std::time::Duration::from_secs(5));
        }
        std::process::exit(code);
    }
    print!("{stdout}");
}
