//! Scripted stdout/stderr writer for C19.
//! argv[1] = script: thread scripts separated by '|'; steps separated by ','.
//! steps: o:N (write N bytes to stdout), e:N (stderr), co / ce (close stdout / stderr), p:USEC (sleep), x:N (exit code)
//! Content is position-dependent per stream: byte(p, s) = (p*31 + s*7 + p/251) % 251.

use std::sync::atomic::{AtomicI32, AtomicUsize, Ordering};

static POS: [AtomicUsize; 2] = [AtomicUsize::new(0), AtomicUsize::new(0)];
static EXIT: AtomicI32 = AtomicI32::new(0);

fn content(start: usize, n: usize, s: usize) -> Vec<u8> {
    (start..start + n).map(|p| ((p * 31 + s * 7 + p / 251) % 251) as u8).collect()
}

fn write_all(fd: i32, mut buf: &[u8]) {
    while !buf.is_empty() {
        let r = unsafe { libc::write(fd, buf.as_ptr() as *const libc::c_void, buf.len()) };
        if r < 0 {
            let e = std::io::Error::last_os_error();
            if e.kind() == std::io::ErrorKind::Interrupted {
                continue;
            }
            // reader went away / fd closed: stop writing this step
            return;
        }
        buf = &buf[r as usize..];
    }
}

fn run_script(script: &str) {
    for step in script.split(',').filter(|s| !s.is_empty()) {
        let (op, arg) = step.split_once(':').unwrap_or((step, "0"));
        let n: usize = arg.parse().unwrap_or(0);
        match op {
            "o" | "e" => {
                let s = if op == "o" { 0 } else { 1 };
                let start = POS[s].fetch_add(n, Ordering::SeqCst);
                write_all(1 + s as i32, &content(start, n, s));
            }
            "co" => unsafe {
                libc::close(1);
            },
            "ce" => unsafe {
                libc::close(2);
            },
            "p" => std::thread::sleep(std::time::Duration::from_micros(n as u64)),
            "x" => EXIT.store(n as i32, Ordering::SeqCst),
            _ => {}
        }
    }
}

fn main() {
    unsafe {
        libc::signal(libc::SIGPIPE, libc::SIG_IGN);
    }
    if let Ok(p) = std::env::var("VCHILD_PIDFILE") {
        let _ = std::fs::write(p, std::process::id().to_string());
    }
    let script = std::env::args().nth(1).unwrap_or_default();
    let parts: Vec<String> = script.split('|').map(String::from).collect();
    if parts.len() <= 1 {
        run_script(&script);
    } else {
        let hs: Vec<_> = parts.into_iter().map(|p| std::thread::spawn(move || run_script(&p))).collect();
        for h in hs {
            let _ = h.join();
        }
    }
    unsafe { libc::_exit(EXIT.load(Ordering::SeqCst)) }
}
