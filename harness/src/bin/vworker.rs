//! Scenario worker: runs ONE scenario in a fresh process. argv[1] = mode, rest mode-specific.
fn main() {
    let args: Vec<String> = std::env::args().collect();
    let mode = args.get(1).map(String::as_str).unwrap_or("");
    let code = vharness::worker::main(mode, &args[2.min(args.len())..]);
    std::process::exit(code);
}
