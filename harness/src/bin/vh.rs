//! Engine entry point: `vh <ID> quick|thorough` or `vh <ID> --replay <file>`.

use vharness::core::{Ctx, Tier};
use vharness::props;

type RunFn = fn(&Ctx);
type ReplayFn = fn(&Ctx, &str, &serde_json::Value);

fn table() -> Vec<(&'static str, &'static str, RunFn, ReplayFn)> {
    vec![
        ("C01", "exploration", props::c01::run, props::c01::replay),
        ("C02", "exploration", props::c02::run, props::c02::replay),
        ("C03", "exploration", props::c03::run, props::c03::replay),
        ("C04", "exploration", props::c04::run, props::c04::replay),
        ("C05", "exploration", props::c05::run, props::c05::replay),
        ("C06", "exploration", props::c06::run, props::c06::replay),
        ("C07", "exploration", props::c07::run, props::c07::replay),
        ("C08", "exploration", props::c08::run, props::c08::replay),
        ("C09", "exploration", props::c09::run, props::c09::replay),
        ("C10", "exploration", props::c10::run, props::c10::replay),
        ("C11", "exploration", props::c11::run, props::c11::replay),
        ("C12", "fault_enumeration", props::c12::run, props::c12::replay),
        ("C13", "exploration", props::c13::run, props::c13::replay),
        ("C14", "exploration", props::c14::run, props::c14::replay),
        ("C15", "exploration", props::c15::run, props::c15::replay),
        ("C16", "fault_enumeration", props::c16::run, props::c16::replay),
        ("C17", "exploration", props::c17::run, props::c17::replay),
        ("C18", "exploration", props::c18::run, props::c18::replay),
        ("C19", "exploration", props::c19::run, props::c19::replay),
        ("C20", "exploration", props::c20::run, props::c20::replay),
    ]
}

fn main() {
    let args: Vec<String> = std::env::args().collect();
    if args.len() < 3 {
        eprintln!("usage: vh <ID> quick|thorough | vh <ID> --replay <file>");
        std::process::exit(2);
    }
    let id = args[1].as_str();
    let Some((sid, level, run, replay)) = table().into_iter().find(|t| t.0 == id) else {
        eprintln!("unknown property {id}");
        std::process::exit(2);
    };
    let seed: u64 = std::env::var("VERIF_SEED")
        .ok()
        .and_then(|s| s.trim().parse::<i64>().ok())
        .map(|v| v as u64)
        .unwrap_or(20261002);
    if args[2] == "--replay" {
        let path = args.get(3).expect("replay path");
        let v: serde_json::Value =
            serde_json::from_str(&std::fs::read_to_string(path).expect("read replay")).expect("replay json");
        let mut ctx = Ctx::new(sid, Tier::Quick, seed, level);
        ctx.replaying = true;
        replay(&ctx, v["sub"].as_str().unwrap_or(""), &v["case"]);
        let code = ctx.finish();
        if code == 0 {
            println!("replay passed: {path}");
        }
        std::process::exit(code);
    }
    let tier = match args[2].as_str() {
        "quick" => Tier::Quick,
        "thorough" => Tier::Thorough,
        other => {
            eprintln!("unknown tier {other}");
            std::process::exit(2);
        }
    };
    let ctx = Ctx::new(sid, tier, seed, level);
    run(&ctx);
    std::process::exit(ctx.finish());
}
