//! Scripted buildpack executable (run through symlinks named detect / build / anything else).
fn main() {
    libcnb::libcnb_runtime(&vharness::layermodel::HB);
}
