//! The scripted buildpack executable (multi-call through its name, like a real libcnb.rs buildpack).
fn main() {
    // an earlier detect/build of ANOTHER buildpack in this same process (libcnb_runtime_detect/_build are public for
    // programmatic use): whatever it read must not leak into the real invocation that follows
    if let Some(root) = std::env::var_os("VBP_WARMUP_ROOT") {
        vharness::bp::warmup(std::path::Path::new(&root));
    }
    libcnb::libcnb_runtime(&vharness::layermodel::HB);
}
