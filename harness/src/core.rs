//! Engine shared by all property checks: tiers, seeds, counters, evidence, replay files,
//! known findings, proptest driver.

use proptest::strategy::{Strategy, ValueTree};
use proptest::test_runner::{Config, RngSeed, TestCaseError, TestError, TestRunner};
use serde_json::{Value, json};
use std::cell::{Cell, RefCell};
use std::collections::{BTreeMap, HashSet};
use std::hash::{Hash, Hasher};
use std::path::{Path, PathBuf};
use std::time::Instant;

#[derive(Clone, Copy, PartialEq, Eq, Debug)]
pub enum Tier {
    Quick,
    Thorough,
}

impl Tier {
    pub fn pick<T>(self, quick: T, thorough: T) -> T {
        match self {
            Tier::Quick => quick,
            Tier::Thorough => thorough,
        }
    }
    pub fn name(self) -> &'static str {
        self.pick("quick", "thorough")
    }
}

pub fn verif_root() -> PathBuf {
    std::env::var_os("VERIF_ROOT")
        .map(PathBuf::from)
        .unwrap_or_else(|| PathBuf::from("/verif"))
}

/// Directory with the harness's own executables (vbp, vstub, ...).
pub fn bin_dir() -> PathBuf {
    std::env::current_exe()
        .expect("current_exe")
        .parent()
        .expect("exe parent")
        .to_path_buf()
}

#[derive(Clone, Debug)]
pub struct KnownFinding {
    pub property: String,
    pub signature: String,
    pub status: String,
    pub what: String,
}

fn load_known() -> Vec<KnownFinding> {
    let p = verif_root().join("known_findings.json");
    let Ok(text) = std::fs::read_to_string(&p) else {
        return vec![];
    };
    let v: Value = serde_json::from_str(&text).expect("known_findings.json must be valid JSON");
    v["findings"]
        .as_array()
        .map(|a| {
            a.iter()
                .map(|f| KnownFinding {
                    property: f["property"].as_str().unwrap_or("").to_string(),
                    signature: f["signature"].as_str().unwrap_or("").to_string(),
                    status: f["status"].as_str().unwrap_or("").to_string(),
                    what: f["what"].as_str().unwrap_or("").to_string(),
                })
                .collect()
        })
        .unwrap_or_default()
}

/// A failed oracle: `sig` names the mechanism (used for known-finding matching), `msg` the details.
#[derive(Clone, Debug)]
pub struct Fail {
    pub sig: String,
    pub msg: String,
}

impl Fail {
    pub fn new(sig: impl Into<String>, msg: impl Into<String>) -> Self {
        Fail {
            sig: sig.into(),
            msg: msg.into(),
        }
    }
}

pub type Check = Result<(), Fail>;

#[macro_export]
macro_rules! ensure {
    ($cond:expr, $sig:expr, $($arg:tt)*) => {
        if !($cond) {
            return Err($crate::core::Fail::new($sig, format!($($arg)*)));
        }
    };
}

pub struct Violation {
    pub sig: String,
    pub msg: String,
    pub replay: PathBuf,
}

pub struct Ctx {
    pub id: &'static str,
    pub tier: Tier,
    pub seed: u64,
    pub level: &'static str,
    start: Instant,
    evaluations: Cell<u64>,
    nontrivial: RefCell<HashSet<u64>>,
    classes: RefCell<BTreeMap<String, u64>>,
    samples: RefCell<Vec<Value>>,
    rule: RefCell<String>,
    assumptions: RefCell<Vec<String>>,
    extra: RefCell<BTreeMap<String, Value>>,
    exhaustive: Cell<Option<bool>>,
    pub violations: RefCell<Vec<Violation>>,
    known: Vec<KnownFinding>,
    known_hit: RefCell<BTreeMap<String, (String, u64)>>,
    frozen: Cell<bool>,
    inconclusive: RefCell<Vec<String>>,
    /// strict: replay mode — known findings are not tolerated silently (still reported as known).
    pub replaying: bool,
}

pub fn hash_of<T: Hash + ?Sized>(t: &T) -> u64 {
    let mut h = std::collections::hash_map::DefaultHasher::new();
    t.hash(&mut h);
    h.finish()
}

impl Ctx {
    pub fn new(id: &'static str, tier: Tier, seed: u64, level: &'static str) -> Self {
        Ctx {
            id,
            tier,
            seed,
            level,
            start: Instant::now(),
            evaluations: Cell::new(0),
            nontrivial: RefCell::new(HashSet::new()),
            classes: RefCell::new(BTreeMap::new()),
            samples: RefCell::new(Vec::new()),
            rule: RefCell::new(String::new()),
            assumptions: RefCell::new(Vec::new()),
            extra: RefCell::new(BTreeMap::new()),
            exhaustive: Cell::new(None),
            violations: RefCell::new(Vec::new()),
            known: load_known(),
            known_hit: RefCell::new(BTreeMap::new()),
            frozen: Cell::new(false),
            inconclusive: RefCell::new(Vec::new()),
            replaying: false,
        }
    }

    pub fn set_rule(&self, rule: &str) {
        *self.rule.borrow_mut() = rule.to_string();
    }
    pub fn assume(&self, a: &str) {
        self.assumptions.borrow_mut().push(a.to_string());
    }
    pub fn set_exhaustive(&self, b: bool) {
        self.exhaustive.set(Some(b));
    }
    pub fn extra(&self, key: &str, v: Value) {
        self.extra.borrow_mut().insert(key.to_string(), v);
    }
    pub fn extra_add(&self, key: &str, n: u64) {
        let mut e = self.extra.borrow_mut();
        let cur = e.get(key).and_then(Value::as_u64).unwrap_or(0);
        e.insert(key.to_string(), json!(cur + n));
    }
    pub fn inconclusive(&self, why: impl Into<String>) {
        self.inconclusive.borrow_mut().push(why.into());
    }

    /// One case executed.
    pub fn eval(&self) {
        if !self.frozen.get() {
            self.evaluations.set(self.evaluations.get() + 1);
        }
    }
    pub fn eval_n(&self, n: u64) {
        if !self.frozen.get() {
            self.evaluations.set(self.evaluations.get() + n);
        }
    }
    /// Case is non-trivial by the property's rule; `key` is the canonical hash of the case.
    pub fn nontrivial(&self, key: u64) {
        if !self.frozen.get() {
            self.nontrivial.borrow_mut().insert(key);
        }
    }
    pub fn class(&self, name: &str) {
        if !self.frozen.get() {
            *self.classes.borrow_mut().entry(name.to_string()).or_insert(0) += 1;
        }
    }
    pub fn class_n(&self, name: &str, n: u64) {
        if !self.frozen.get() {
            *self.classes.borrow_mut().entry(name.to_string()).or_insert(0) += n;
        }
    }
    /// Keep up to `cap` samples.
    pub fn sample(&self, cap: usize, f: impl FnOnce() -> Value) {
        if self.frozen.get() {
            return;
        }
        let mut s = self.samples.borrow_mut();
        if s.len() < cap {
            s.push(f());
        }
    }
    pub fn samples_len(&self) -> usize {
        self.samples.borrow().len()
    }

    pub fn is_known(&self, sig: &str) -> Option<&KnownFinding> {
        self.known
            .iter()
            .find(|k| k.property == self.id && k.signature == sig && k.status == "known")
    }

    /// Route an oracle result: known findings are counted and tolerated (search continues behind them),
    /// everything else is passed on as failure.
    pub fn judge(&self, r: Check) -> Check {
        match r {
            Ok(()) => Ok(()),
            Err(f) => {
                if let Some(k) = self.is_known(&f.sig) {
                    let mut kh = self.known_hit.borrow_mut();
                    let e = kh.entry(f.sig.clone()).or_insert((k.what.clone(), 0));
                    e.1 += 1;
                    Ok(())
                } else {
                    Err(f)
                }
            }
        }
    }

    pub fn write_replay(&self, sub: &str, fail: &Fail, case: &Value) -> PathBuf {
        let dir = verif_root().join("replays").join(self.id);
        let _ = std::fs::create_dir_all(&dir);
        let body = json!({"property": self.id, "sub": sub, "sig": fail.sig, "msg": fail.msg, "case": case});
        let text = serde_json::to_string_pretty(&body).unwrap();
        let sig_clean: String = fail
            .sig
            .chars()
            .map(|c| if c.is_ascii_alphanumeric() || c == '-' { c } else { '_' })
            .collect();
        let h = hash_of(&serde_json::to_string(case).unwrap());
        let p = dir.join(format!("{}-{:016x}.json", sig_clean, h));
        std::fs::write(&p, text).expect("write replay");
        p
    }

    /// Record a violation found outside proptest (exhaustive loops). Returns after writing the replay.
    pub fn violation(&self, sub: &str, fail: Fail, case: &Value) {
        // problems of the machinery itself (a helper process that could not be spawned, a setup step that failed) are
        // never reported as violations of the property: exit 2
        if fail.sig.starts_with("harness") || (fail.sig == "panic" && fail.msg.starts_with("harness:")) {
            self.inconclusive(format!("{sub}: {} {}", fail.sig, fail.msg));
            return;
        }
        // at most one violation per (sub, sig) is recorded
        if self
            .violations
            .borrow()
            .iter()
            .any(|v| v.sig == fail.sig)
        {
            return;
        }
        let p = if self.replaying {
            PathBuf::from("(replay)")
        } else {
            self.write_replay(sub, &fail, case)
        };
        println!("VIOLATION property={} replay={}", self.id, p.display());
        println!("  signature: {}\n  detail: {}", fail.sig, fail.msg);
        self.violations.borrow_mut().push(Violation {
            sig: fail.sig,
            msg: fail.msg,
            replay: p,
        });
    }

    /// Judge + record, for loops. Returns true if the case passed (or hit a known finding).
    pub fn check_case(&self, sub: &str, r: Check, case: impl FnOnce() -> Value) -> bool {
        match self.judge(r) {
            Ok(()) => true,
            Err(f) => {
                self.violation(sub, f, &case());
                false
            }
        }
    }

    /// Drive a proptest strategy. `f` is the oracle; `to_json` serialises a (shrunk) case for replay.
    pub fn run_prop<S, F, J>(&self, sub: &str, strategy: S, cases: u32, to_json: J, f: F)
    where
        S: Strategy,
        S::Value: std::fmt::Debug + Clone,
        F: Fn(&S::Value) -> Check,
        J: Fn(&S::Value) -> Value,
    {
        // derive a per-sub seed so that sub-runs are independent but deterministic
        let seed = self.seed ^ hash_of(&(self.id, sub)).rotate_left(17);
        let config = Config {
            cases,
            rng_seed: RngSeed::Fixed(seed),
            failure_persistence: None,
            max_shrink_iters: 4000,
            max_global_rejects: u32::MAX,
            max_local_rejects: u32::MAX,
            verbose: 0,
            ..Config::default()
        };
        let mut runner = TestRunner::new(config);
        let last_fail: RefCell<Option<Fail>> = RefCell::new(None);
        let result = runner.run(&strategy, |case| {
            let r = std::panic::catch_unwind(std::panic::AssertUnwindSafe(|| f(&case)));
            let r = match r {
                Ok(r) => r,
                Err(p) => {
                    let m = if let Some(s) = p.downcast_ref::<String>() {
                        s.clone()
                    } else if let Some(s) = p.downcast_ref::<&str>() {
                        (*s).to_string()
                    } else {
                        "panic".to_string()
                    };
                    Err(Fail::new("panic", m))
                }
            };
            match self.judge(r) {
                Ok(()) => Ok(()),
                Err(fl) => {
                    self.frozen.set(true);
                    let m = format!("{}|{}", fl.sig, fl.msg);
                    *last_fail.borrow_mut() = Some(fl);
                    Err(TestCaseError::fail(m))
                }
            }
        });
        self.frozen.set(false);
        match result {
            Ok(()) => {}
            Err(TestError::Fail(reason, value)) => {
                // Re-run the shrunk value to get its own failure (signature may differ from the last one seen).
                self.frozen.set(true);
                let r = std::panic::catch_unwind(std::panic::AssertUnwindSafe(|| f(&value)));
                self.frozen.set(false);
                let fl = match r {
                    Ok(Err(fl)) => fl,
                    _ => last_fail.borrow().clone().unwrap_or_else(|| {
                        Fail::new("unknown", reason.message().to_string())
                    }),
                };
                self.violation(sub, fl, &to_json(&value));
            }
            Err(TestError::Abort(reason)) => {
                self.inconclusive(format!("proptest aborted in {sub}: {}", reason.message()));
            }
        }
    }

    /// Parallel variant of `run_prop` for oracles that spawn processes: all cases are generated first (deterministically
    /// from the seed), the pure oracle `f` runs on worker threads, `absorb` feeds evidence counters on the main thread in
    /// generation order; the first failing case (in generation order) is shrunk with proptest's own value tree
    /// (simplify / complicate) using `f` sequentially.
    pub fn run_prop_par<S, F, A, J, R>(&self, sub: &str, strategy: S, cases: u32, to_json: J, f: F, absorb: A)
    where
        S: Strategy,
        S::Value: std::fmt::Debug + Clone + Sync,
        R: Send,
        F: Fn(&S::Value) -> (Check, R) + Sync,
        A: Fn(&S::Value, R),
        J: Fn(&S::Value) -> Value,
    {
        let seed = self.seed ^ hash_of(&(self.id, sub)).rotate_left(17);
        // filters inside strategies (prop_filter) count their rejections per RUNNER, not per case: no cap for long runs
        let config = Config { cases, rng_seed: RngSeed::Fixed(seed), failure_persistence: None, max_local_rejects: u32::MAX, max_global_rejects: u32::MAX, ..Config::default() };
        let mut runner = TestRunner::new(config);
        let guarded = |v: &S::Value| -> (Check, Option<R>) {
            match std::panic::catch_unwind(std::panic::AssertUnwindSafe(|| f(v))) {
                Ok((c, r)) => (c, Some(r)),
                Err(p) => {
                    let m = if let Some(s) = p.downcast_ref::<String>() { s.clone() } else if let Some(s) = p.downcast_ref::<&str>() { (*s).to_string() } else { "panic".to_string() };
                    (Err(Fail::new("panic", m)), None)
                }
            }
        };
        // batches keep memory bounded and let a failure stop the run early
        let batch = (ncpu() * 8).max(16);
        let mut done = 0u32;
        while done < cases {
            let n = batch.min((cases - done) as usize);
            let mut trees: Vec<_> = (0..n).map(|_| strategy.new_tree(&mut runner).expect("new_tree")).collect();
            let values: Vec<S::Value> = trees.iter().map(|t| t.current()).collect();
            let results = par_map(&values, ncpu(), |v| guarded(v));
            let mut failing: Option<(usize, Fail)> = None;
            for (i, (c, r)) in results.into_iter().enumerate() {
                if failing.is_some() {
                    break;
                }
                if let Some(r) = r {
                    absorb(&values[i], r);
                }
                if let Err(fl) = self.judge(c) {
                    failing = Some((i, fl));
                }
            }
            if let Some((i, first_fail)) = failing {
                self.frozen.set(true);
                let tree = &mut trees[i];
                let mut best: (S::Value, Fail) = (values[i].clone(), first_fail);
                let mut iters = 0;
                if tree.simplify() {
                    loop {
                        iters += 1;
                        if iters > 600 {
                            break;
                        }
                        let cur = tree.current();
                        let failed = match guarded(&cur).0 {
                            Err(fl) if self.is_known(&fl.sig).is_none() => Some(fl),
                            _ => None,
                        };
                        match failed {
                            Some(fl) => {
                                best = (cur, fl);
                                if !tree.simplify() {
                                    break;
                                }
                            }
                            None => {
                                if !tree.complicate() {
                                    break;
                                }
                            }
                        }
                    }
                }
                self.frozen.set(false);
                self.violation(sub, best.1, &to_json(&best.0));
                return;
            }
            done += n as u32;
        }
    }

    /// Generate `n` values from a strategy deterministically (no shrinking) — for batch pipelines.
    pub fn generate<S: Strategy>(&self, sub: &str, strategy: &S, n: usize) -> Vec<S::Value> {
        let seed = self.seed ^ hash_of(&(self.id, sub, "gen")).rotate_left(23);
        let config = Config {
            rng_seed: RngSeed::Fixed(seed),
            failure_persistence: None,
            max_local_rejects: u32::MAX,
            max_global_rejects: u32::MAX,
            ..Config::default()
        };
        let mut runner = TestRunner::new(config);
        (0..n)
            .map(|_| strategy.new_tree(&mut runner).expect("new_tree").current())
            .collect()
    }

    /// Replay files committed as regressions (fixed findings) — run first in every quick run.
    pub fn regress_files(&self) -> Vec<(PathBuf, Value)> {
        let dir = verif_root().join("replays").join(self.id).join("regress");
        let mut out = vec![];
        if let Ok(rd) = std::fs::read_dir(&dir) {
            let mut paths: Vec<_> = rd.filter_map(|e| e.ok()).map(|e| e.path()).collect();
            paths.sort();
            for p in paths {
                if p.extension().and_then(|e| e.to_str()) == Some("json") {
                    let v: Value = serde_json::from_str(&std::fs::read_to_string(&p).unwrap())
                        .expect("regress file json");
                    out.push((p, v));
                }
            }
        }
        out
    }

    pub fn finish(&self) -> i32 {
        let wall = self.start.elapsed().as_secs_f64();
        let nviol = self.violations.borrow().len();
        let mut coverage = serde_json::Map::new();
        coverage.insert("evaluations".into(), json!(self.evaluations.get()));
        coverage.insert(
            "distinct_nontrivial".into(),
            json!(self.nontrivial.borrow().len()),
        );
        coverage.insert("rule".into(), json!(*self.rule.borrow()));
        coverage.insert("samples".into(), Value::Array(self.samples.borrow().clone()));
        coverage.insert("classes".into(), json!(*self.classes.borrow()));
        if let Some(e) = self.exhaustive.get() {
            coverage.insert("exhaustive".into(), json!(e));
        }
        for (k, v) in self.extra.borrow().iter() {
            coverage.insert(k.clone(), v.clone());
        }
        let known: Vec<Value> = self
            .known_hit
            .borrow()
            .iter()
            .map(|(sig, (what, n))| json!({"signature": sig, "what": what, "cases_excluded": n}))
            .collect();
        coverage.insert("known_findings_matched".into(), Value::Array(known));
        coverage.insert(
            "violation_details".into(),
            Value::Array(
                self.violations
                    .borrow()
                    .iter()
                    .map(|v| json!({"signature": v.sig, "detail": v.msg, "replay": v.replay}))
                    .collect(),
            ),
        );
        if !self.inconclusive.borrow().is_empty() {
            coverage.insert("inconclusive".into(), json!(*self.inconclusive.borrow()));
        }
        let ev = json!({
            "property_id": self.id,
            "tier": self.tier.name(),
            "seed": self.seed,
            "level": self.level,
            "coverage": Value::Object(coverage),
            "assumptions": *self.assumptions.borrow(),
            "wall_s": (wall * 1000.0).round() / 1000.0,
            "violations": nviol,
        });
        if !self.replaying {
            let dir = verif_root().join("evidence");
            let _ = std::fs::create_dir_all(&dir);
            let p = dir.join(format!("{}.json", self.id));
            let tmp = dir.join(format!(".{}.json.tmp{}", self.id, std::process::id()));
            std::fs::write(&tmp, serde_json::to_string_pretty(&ev).unwrap()).expect("evidence");
            std::fs::rename(&tmp, &p).expect("evidence rename");
        }
        for (sig, (what, n)) in self.known_hit.borrow().iter() {
            println!(
                "KNOWN-FINDING: property={} {} [{}; {} cases]",
                self.id, what, sig, n
            );
        }
        println!(
            "{} {} seed={} evaluations={} distinct_nontrivial={} violations={} wall={:.1}s",
            self.id,
            self.tier.name(),
            self.seed,
            self.evaluations.get(),
            self.nontrivial.borrow().len(),
            nviol,
            wall
        );
        for (k, v) in self.classes.borrow().iter() {
            println!("  class {k}: {v}");
        }
        if nviol > 0 {
            1
        } else if !self.inconclusive.borrow().is_empty() {
            for i in self.inconclusive.borrow().iter() {
                println!("INCONCLUSIVE: {i}");
            }
            2
        } else {
            0
        }
    }
}

/// Scratch root for file-system work (tmpfs when available). Removed on drop.
pub struct Scratch {
    pub path: PathBuf,
}

impl Scratch {
    pub fn new(tag: &str) -> Self {
        let base = std::env::var_os("VERIF_SCRATCH")
            .map(PathBuf::from)
            .unwrap_or_else(|| {
                let shm = Path::new("/dev/shm");
                if shm.is_dir()
                    && std::fs::metadata(shm)
                        .map(|m| !m.permissions().readonly())
                        .unwrap_or(false)
                {
                    shm.to_path_buf()
                } else {
                    std::env::temp_dir()
                }
            });
        let path = base.join(format!("verif-{}-{}", tag, std::process::id()));
        let _ = crate::fsutil::force_remove(&path);
        std::fs::create_dir_all(&path).expect("scratch dir");
        Scratch { path }
    }
}

impl Drop for Scratch {
    fn drop(&mut self) {
        let _ = crate::fsutil::force_remove(&self.path);
    }
}

/// Monotone index mapping for shrink-friendly choices.
pub fn pick_idx(i: u16, len: usize) -> usize {
    if len == 0 {
        0
    } else {
        ((i as usize) * len) >> 16
    }
}

/// bytes <-> JSON string via latin-1 mapping (lossless, readable for ASCII).
pub fn bytes_to_json(b: &[u8]) -> Value {
    Value::String(b.iter().map(|&c| c as char).collect())
}
pub fn json_to_bytes(v: &Value) -> Vec<u8> {
    v.as_str()
        .expect("bytes string")
        .chars()
        .map(|c| {
            let n = c as u32;
            assert!(n < 256, "latin-1 byte string expected");
            n as u8
        })
        .collect()
}

/// Parallel map over items in up to `threads` scoped threads; order preserved.
pub fn par_map<T: Sync, R: Send, F: Fn(&T) -> R + Sync>(items: &[T], threads: usize, f: F) -> Vec<R> {
    if items.is_empty() {
        return vec![];
    }
    let threads = threads.max(1).min(items.len());
    let chunk = items.len().div_ceil(threads);
    let mut out: Vec<Vec<R>> = Vec::new();
    std::thread::scope(|s| {
        let handles: Vec<_> = items
            .chunks(chunk)
            .map(|c| {
                let f = &f;
                s.spawn(move || c.iter().map(f).collect::<Vec<R>>())
            })
            .collect();
        for h in handles {
            out.push(h.join().expect("worker thread panicked"));
        }
    });
    out.into_iter().flatten().collect()
}

/// process-wide counter for scratch directory names (parallel cases may be equal; their directories must not be)
pub fn uniq() -> u64 {
    static N: std::sync::atomic::AtomicU64 = std::sync::atomic::AtomicU64::new(0);
    N.fetch_add(1, std::sync::atomic::Ordering::Relaxed)
}

pub fn ncpu() -> usize {
    std::thread::available_parallelism().map(|n| n.get()).unwrap_or(4)
}
