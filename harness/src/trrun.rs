//! Running libcnb-test scenarios in a worker process against the stand-in docker/pack.

use crate::core::bin_dir;
use serde_json::Value;
use std::collections::BTreeSet;
use std::path::{Path, PathBuf};

pub struct TrOutcome {
    pub code: Option<i32>,
    pub log: Vec<Value>,
    pub state_after: BTreeSet<String>,
    pub foreign: BTreeSet<String>,
    pub tmp_left: Vec<String>,
    pub stderr: String,
    pub fixture_before: crate::fsutil::Snapshot,
    pub fixture_after: crate::fsutil::Snapshot,
    pub manifest_dir: PathBuf,
}

pub const FOREIGN: [&str; 6] = [
    "images/heroku/builder:24",
    "images/libcnbtest_foreignimageaa",
    "volumes/libcnbtest_foreignimageaa.build-cache",
    "volumes/libcnbtest_foreignimageaa.launch-cache",
    "containers/libcnbtest_foreigncontaine",
    "containers/unrelated",
];

fn list_state(state: &Path) -> BTreeSet<String> {
    let mut out = BTreeSet::new();
    for kind in ["images", "volumes", "containers"] {
        fn rec(base: &Path, d: &Path, kind: &str, out: &mut BTreeSet<String>) {
            if let Ok(rd) = std::fs::read_dir(d) {
                for e in rd.flatten() {
                    let p = e.path();
                    if p.is_dir() {
                        rec(base, &p, kind, out);
                    } else {
                        out.insert(format!("{kind}/{}", p.strip_prefix(base).unwrap().to_string_lossy()));
                    }
                }
            }
        }
        rec(&state.join(kind), &state.join(kind), kind, &mut out);
    }
    out
}

pub fn prepare(root: &Path) -> PathBuf {
    let _ = crate::fsutil::force_remove(root);
    let stubbin = root.join("stubbin");
    std::fs::create_dir_all(&stubbin).unwrap();
    for n in ["docker", "pack"] {
        std::os::unix::fs::symlink(bin_dir().join("vstub"), stubbin.join(n)).unwrap();
    }
    let state = root.join("state");
    for f in FOREIGN {
        let p = state.join(f);
        std::fs::create_dir_all(p.parent().unwrap()).unwrap();
        std::fs::write(p, b"").unwrap();
    }
    std::fs::create_dir_all(root.join("tmp")).unwrap();
    let manifest = root.join("manifest dir");
    std::fs::create_dir_all(manifest.join("fixtures/app/sub")).unwrap();
    std::fs::write(manifest.join("fixtures/app/file.txt"), b"fixture file").unwrap();
    std::fs::write(manifest.join("fixtures/app/remove-me.txt"), b"to be removed by the preprocessor").unwrap();
    std::fs::write(manifest.join("fixtures/app/sub/inner"), b"inner").unwrap();
    // bind-mount sources that exist on the host (C17): a directory and a symbolic link to it
    std::fs::create_dir_all(manifest.join("mnt/real")).unwrap();
    std::os::unix::fs::symlink("real", manifest.join("mnt/link")).unwrap();
    // a fixture that cannot be copied (C16: a build failing while it is prepared must not leave the partial copy behind)
    std::fs::create_dir_all(manifest.join("fixtures/broken-app/sub")).unwrap();
    std::fs::write(manifest.join("fixtures/broken-app/a-file.txt"), b"copied before the failure").unwrap();
    std::fs::write(manifest.join("fixtures/broken-app/sub/another"), b"x").unwrap();
    std::os::unix::fs::symlink("does/not/exist", manifest.join("fixtures/broken-app/sub/zz-dangling")).unwrap();
    // a read-only fixture file that the preprocessor makes writable and extends IN PLACE: the copy must be a copy
    std::fs::create_dir_all(manifest.join("fixtures/app/vendor")).unwrap();
    std::fs::write(manifest.join("fixtures/app/vendor/readonly.sh"), b"read-only fixture file").unwrap();
    std::fs::set_permissions(manifest.join("fixtures/app/vendor/readonly.sh"), std::os::unix::fs::PermissionsExt::from_mode(0o444)).unwrap();
    // the manifest directory is also a dependency-free libcnb.rs-style buildpack crate (for BuildpackReference::CurrentCrate)
    std::fs::create_dir_all(manifest.join("src")).unwrap();
    std::fs::write(manifest.join("Cargo.toml"), "[package]\nname = \"bp-under-test\"\nversion = \"0.1.0\"\nedition = \"2021\"\n\n[workspace]\n").unwrap();
    std::fs::write(manifest.join("src/main.rs"), "fn main() { println!(\"buildpack under test\"); }\n").unwrap();
    std::fs::write(manifest.join("buildpack.toml"), "api = \"0.10\"\n\n[buildpack]\nid = \"verif/current\"\nversion = \"0.1.0\"\n").unwrap();
    manifest
}

fn which_cargo() -> PathBuf {
    for d in std::env::var("PATH").unwrap_or_default().split(':') {
        let p = Path::new(d).join("cargo");
        if p.is_file() {
            return p;
        }
    }
    PathBuf::from("cargo")
}

pub fn run_scenario(root: &Path, scn: &Value, fail_at: Option<u64>, pack_fail_seq: &str) -> TrOutcome {
    run_scenario_env(root, scn, fail_at, pack_fail_seq, false)
}

/// `with_toolchain`: keep the caller's environment (cargo, rustup, linker) so that the worker can compile the crate
/// in the manifest directory; the stand-ins stay first on PATH.
pub fn run_scenario_env(root: &Path, scn: &Value, fail_at: Option<u64>, pack_fail_seq: &str, with_toolchain: bool) -> TrOutcome {
    let manifest = prepare(root);
    let state = root.join("state");
    let log = root.join("log.jsonl");
    let fixture_before = crate::fsutil::snapshot(&manifest);
    let mut cmd = std::process::Command::new(bin_dir().join("vworker"));
    cmd.arg("tr").arg(scn.to_string());
    if with_toolchain {
        let path = format!("{}:{}", root.join("stubbin").display(), std::env::var("PATH").unwrap_or_default());
        cmd.env("PATH", path).env("CARGO", which_cargo()).env("CARGO_NET_OFFLINE", "true").env_remove("CI").env("CARGO_TARGET_DIR", root.parent().unwrap_or(root).join("cargo-target"));
    } else {
        cmd.env_clear().env("PATH", root.join("stubbin"));
    }
    cmd
        .env("TMPDIR", root.join("tmp"))
        .env("CARGO_MANIFEST_DIR", &manifest)
        .env("VSTUB_STATE", &state)
        .env("VSTUB_LOG", &log)
        .env("VSTUB_PACK_FAIL_SEQ", pack_fail_seq)
        .current_dir(root);
    if let Some(n) = fail_at {
        cmd.env("VSTUB_FAIL_AT", n.to_string());
    }
    // failure flavour: derived from the scenario so that it is reproducible from the replay file
    // -9: the command does not exit, it is killed by SIGKILL (an OOM kill on CI)
    const CODES: [i32; 6] = [1, 125, 126, 127, 2, -9];
    const MSGS: [&str; 5] = [
        "vstub: injected failure",
        "docker: Error response from daemon: No such image.",
        "ERROR: failed to build: Cannot connect to the Docker daemon at unix:///var/run/docker.sock. Is the docker daemon running?",
        "Error response from daemon: Conflict. The container name is already in use",
        "Error: No such container",
    ];
    let flavour = scn["fail_flavour"].as_u64().unwrap_or(0) as usize;
    cmd.env("VSTUB_FAIL_CODE", CODES[flavour % CODES.len()].to_string()).env("VSTUB_FAIL_MSG", MSGS[(flavour / CODES.len()) % MSGS.len()]);
    let out = cmd.output().expect("harness: spawn vworker");
    let log_entries: Vec<Value> = std::fs::read_to_string(&log).unwrap_or_default().lines().filter_map(|l| serde_json::from_str(l).ok()).collect();
    let tmp_left: Vec<String> = std::fs::read_dir(root.join("tmp")).map(|rd| rd.flatten().map(|e| e.file_name().to_string_lossy().to_string()).collect()).unwrap_or_default();
    TrOutcome {
        code: out.status.code(),
        log: log_entries,
        state_after: list_state(&state),
        foreign: FOREIGN.iter().map(|s| s.to_string()).collect(),
        tmp_left,
        stderr: String::from_utf8_lossy(&out.stderr).to_string(),
        fixture_before,
        fixture_after: crate::fsutil::snapshot(&manifest),
        manifest_dir: manifest,
    }
}

pub fn argv(e: &Value) -> Vec<String> {
    // the stub records exact bytes (latin-1 mapped); user strings are UTF-8
    e["argv"].as_array().unwrap().iter().map(|s| String::from_utf8_lossy(&s.as_str().unwrap().chars().map(|c| c as u32 as u8).collect::<Vec<u8>>()).into_owned()).collect()
}
